"""Registry: which stages decide which property (see DESIGN.md section 5)."""
from checklib import PROPS, make_prop, ES, GS, tlc_only_stage, refstore_stage, session_stage, long_session_stage, short_strings_stage, stress_stage
from tracestages import TE, TL, api_stage, api_cases_stage

COMMON_ASSUME = [
    "the TLA+ transcription of RFC 9535 (spec/JPSemantics.tla) is faithful; anchored by the RFC's example tables as ASSUMEs (spec/RFCExamples.tla), reproduced from memory",
    "TLC 1.8.0 evaluates the specification correctly",
    "bounded universes: documents, queries and values are those of spec/Universes.tla for the tier",
    "node identity is decided by address inside the caller's document (harness/src/addr.rs)",
]


def slice_loop_stage(ev, tier, seed):
    tlc_only_stage(ev, "SliceLoop", tier, seed,
                   "the slice loop of selector.rs as a machine: EmittedInRange, EmittedIsDeclarative (= RFC formula), IterationsBounded, liveness Terminates")
    return [], None


def tlaps_stage(ev, tier, seed):
    """SliceProofs.tla: the saturation / range / variant lemmas for ALL integers, checked by the TLA+ proof system."""
    import subprocess, re, time, os
    from checklib import SPEC, ToolError, log
    t = time.time()
    p = subprocess.run(["timeout", "900", "tlapm", "--threads", "8", "--cleanfp", "SliceProofs.tla"], cwd=SPEC,
                       stdout=subprocess.PIPE, stderr=subprocess.STDOUT, text=True)
    m = re.search(r"All (\d+) obligations? proved", p.stdout)
    if p.returncode != 0 or not m:
        log(p.stdout[-2000:])
        raise ToolError("tlapm did not prove SliceProofs.tla (a proof failure is a failure of the SPECIFICATION side)")
    n = int(m.group(1))
    ev.extra["tlaps"] = {"module": "SliceProofs.tla", "obligations": n, "discharged": n, "checker_cmd": "tlapm --threads 8 --cleanfp SliceProofs.tla",
                         "wall_s": round(time.time() - t, 1)}
    ev.stages.append({"stage": "TLAPS SliceProofs", "obligations": n, "discharged": n, "wall_s": round(time.time() - t, 1),
                      "note": "ClampUpInRange ClampDownInRange BoundSaturatesUp/Down RepresentativeUp/Down StepSaturates(/Down) VariantUp/Down EmittedInRangeUp/Down IndexInRange - over all integers"})
    log(f"[tlaps] SliceProofs: {n} obligations proved in {time.time()-t:.1f}s")
    return [], None


NT = "non-trivial = the specification's nodelist is non-empty; distinct = distinct REPLAY lines"
PROPS["C01"] = make_prop("C01", [ES("C01", "C01", "nodes"), ES("C01", "C11", "nodes"), ES("C01", "C05", "nodes"), ES("C01", "C01D", "nodes"), ES("C01", "C03", "nodes"), GS("C01", "C13", "nodes"), TE("C01", {"nodes", "outcome", "seg"}), TL("C01", {"nodes", "outcome"})],
    "stages: every (document, query) pair (strided by the seed) of the universes C01 (structural selectors, 2-segment queries over depth-2 documents), C11 (all slices/indices), C05 (filters), C01D (documents nested 133/300 deep), C03 (hostile member names) driven through the evaluation machine and replayed; the grammar machine's shorthand/bracket spellings on probe documents; 1 500/20 000 seeded random (document, query string) evaluations and 26 evaluations on large documents recorded from the implementation and validated by TLC (Trace_Eval, incl. per-segment hook events); " + NT, COMMON_ASSUME)
PROPS["C02"] = make_prop("C02", [ES("C02", "C01", "order"), ES("C02", "C11", "order"), ES("C02", "C15", "order"), ES("C02", "C01D", "order"), TE("C02", {"order"}), TL("C02", {"order"})],
    "as C01 but the result SEQUENCE is compared: universes C01, C11, C15 (insertion-ordered documents through J), C01D; random and large recorded evaluations validated by TLC; " + NT, COMMON_ASSUME)
PROPS["C03"] = make_prop("C03", [ES("C03", "C03", "paths"), ES("C03", "C11", "paths", mode="paths"), ES("C03", "C01", "paths", mode="paths"), TE("C03", {"paths"}), TL("C03", {"paths"}), TL("C03", {"paths", "nodes"}, "huge")],
    "member names over a hostile alphabet reached through every route kind; each result's path compared with the spec's NormalizedPath of the node found by address, equal-paths<=>same-node, and re-query of the reported path; " + NT, COMMON_ASSUME)
PROPS["C04"] = make_prop("C04", [ES("C04", "C04", "nodes"), ES("C04", "C15", "nodes"), TE("C04", {"cmp"})],
    "all pairs of operand values x 6 operators x operand forms embedded as $[?lhs op rhs]; the child is selected iff the spec's Compare is true; " + NT, COMMON_ASSUME)
PROPS["C05"] = make_prop("C05", [ES("C05", "C05", "order"), lambda ev, tier, seed: stress_stage(ev, "C05", tier, seed)],
    "logical expressions of depth <= 3 over test/comparison/nested-filter atoms applied to arrays and objects of children covering presence/absence and falsy values; selected children compared in order; " + NT, COMMON_ASSUME)
PROPS["C10"] = make_prop("C10", [ES("C10", "C10", "nodes,j"), TE("C10", {"fn"}), TL("C10", {"nodes", "outcome"})],
    "regex ASTs of depth <= 2 rendered to patterns x subject strings (match and search), and length/count/value over every JSON type and NOTHING; " + NT,
    COMMON_ASSUME + ["patterns containing ^ or $ are outside the universe (RFC 9485 reads them as literals, the implementation's dialect as anchors)"])
PROPS["C11"] = make_prop("C11", [tlaps_stage, slice_loop_stage, ES("C11", "C11", "order"), TE("C11", {"slice"}), TL("C11", {"nodes", "order", "outcome"})],
    "all (start,end,step) over a window around the array length plus the +-BIG abstraction of +-(2^53-1) x all lengths; all indices; also under a descendant segment; plus the loop machine SliceLoop.tla on the spec side; " + NT,
    COMMON_ASSUME + ["BIG abstraction: an integer beyond the window behaves like its saturated representative (DESIGN 3.1)"])
PROPS["C12"] = make_prop("C12", [lambda ev, tier, seed: session_stage(ev, "C12", tier, seed), lambda ev, tier, seed: long_session_stage(ev, "C12", tier, seed), lambda ev, tier, seed: stress_stage(ev, "C12", tier, seed), TL("C12", {"outcome", "nodes", "order"}, "text"), ES("C12", "C01", "entry,prog,recover"), ES("C12", "C05", "entry,prog,recover"), ES("C12", "C04", "entry,prog"), ES("C12", "C10", "entry,prog"), ES("C12", "C03", "entry")],
    "the three entry points, the prepared query and a repetition compared position by position on every behaviour; document snapshot before/after; " + NT, COMMON_ASSUME)
PROPS["C14"] = make_prop("C14", [ES("C14", "C14", "nodes")],
    "five extension functions over all (x, L) pairs of element values, arrays of them, non-arrays and missing members; also negated and with $-rooted argument; " + NT,
    COMMON_ASSUME + ["1 vs 1.0 pairs are excluded (the property does not say which equality)"])
PROPS["C15"] = make_prop("C15", [ES("C15", "C15", "nodes,order,paths", mode="paths"), ES("C15", "C01", "j"), ES("C15", "C04", "j"), ES("C15", "C05", "j"), ES("C15", "C10", "j"), GS("C15", "C13", "nodes,jgrammar")],
    "every behaviour executed on serde_json::Value and on the second Queryable implementation J (insertion-ordered objects, separate int/float variants); paths and values compared position by position; " + NT,
    COMMON_ASSUME + ["J (harness/src/j.rs) is a faithful implementation of the trait as documented"])

GR = "distinct = distinct sentences; non-trivial = the recogniser gives a verdict (valid/invalid) rather than unscoped"
PROPS["C06"] = make_prop("C06", [GS("C06", "C06", "accept"), GS("C06", "C07", "accept"), TE("C06", {"outcome"}), TL("C06", {"outcome"}, "text")],
    "every spelling (blank space at every S, both quote styles, every escape form, shorthand/bracket notation, redundant parentheses, number spellings) within a variation budget of the abstract queries of GrammarUniverse, derived by the grammar machine and judged valid by the recogniser, must be accepted by parse_json_path and by JsonPath::query; " + GR,
    COMMON_ASSUME + ["RFC 9535 ABNF transcribed twice (generator Grammar.tla, recogniser JPParse.tla) and cross-checked by TLC"])
PROPS["C07"] = make_prop("C07", [GS("C07", "C07", "reject,accept"), lambda ev, tier, seed: short_strings_stage(ev, "C07", tier, seed), lambda ev, tier, seed: api_cases_stage(ev, "C07", tier, seed), TE("C07", {"outcome"})],
    "every single-character edit (delete, insert, replace over a 17..27 symbol alphabet, transpose) of the canonical spellings, plus ill-typed / out-of-range abstract queries; the recogniser decides validity; invalid ones must be rejected by parse_json_path and JsonPath::query, valid ones accepted; " + GR,
    COMMON_ASSUME + ["strings the properties do not speak about (unknown function names, blanks inside singular-query brackets, huge number literals) are labelled unscoped and skipped"])
PROPS["C13"] = make_prop("C13", [GS("C13", "C13", "order,accept"), TE("C13", {"ast"}), TL("C13", {"outcome", "nodes", "order", "ast"}, "text")],
    "all spellings within the variation budget of each abstract query, evaluated on three probe documents: each must return the specification's nodelist for the ABSTRACT query in order (so all spellings agree); spec-side invariant SpellingSame; " + GR,
    COMMON_ASSUME)

PROPS["C09"] = make_prop("C09", [lambda ev, tier, seed: refstore_stage(ev, "C09", tier, seed), ES("C09", "C09D", "feedback", cfg="Evaluator_light"), ES("C09", "C03", "feedback")],
    "histories of up to 2 (thorough 3) reads/writes through the Normalized Paths of EVERY location of the initial document and of locations that do not exist (missing name, index = len, name step on an array, index step on an object); member names include / ~ ~1 0 1 '' and (thorough) ' \\ \" LF; after every step the node address / the whole document is compared with the specification; non-trivial = the history touches an existing location",
    COMMON_ASSUME)

PROPS["C08"] = make_prop("C08", [lambda ev, tier, seed: api_stage(ev, "C08", tier, seed), ES("C08", "C03", "prog"), ES("C08", "C01", "prog,recover"), ES("C08", "C10", "prog"), ES("C08", "C05", "prog")],
    "every call of parse_json_path / query / query_with_path / query_only_path / js_path_process on (a) the Api machine's extreme inputs (9 kinds of nesting x depths 8..512, thorough 4096; integers and literals at +-(2^53-1), 2^53, the i64 limits, huge exponents; truncated strings), (b) a sample of the grammar machine's valid / near-miss / ill-typed sentences, (c) seeded random and mutated strings, executed in isolated worker processes; the recorded call/return trace must be a behaviour of Api.tla (no panic, no crash, no timeout, Err iff the string is invalid); distinct = cases",
    COMMON_ASSUME + ["a hang is observed as 60 s without progress of the worker", "debug build with overflow checks on"])
