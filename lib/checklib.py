"""Shared machinery of bin/check (see DESIGN.md section 8)."""
import json, os, subprocess, sys, time, re, shutil, hashlib

VERIF = os.path.abspath(os.path.join(os.path.dirname(os.path.abspath(__file__)), ".."))
SPEC = os.path.join(VERIF, "spec")
# development only (bin/mutants with MUT_REPO): a scratch copy of the harness whose path dependency is a scratch worktree
HARNESS = os.environ.get("VERIF_HARNESS_DIR", os.path.join(VERIF, "harness"))
WORK = os.path.join(VERIF, "work")
EVID = os.path.join(VERIF, "evidence")
REPLAYS = os.path.join(EVID, "replays")
TLCX = os.path.join(VERIF, "bin", "tlcx")
MAX_VIOLATION_LINES = 12


class ToolError(Exception):
    pass


def log(*a):
    print(*a, file=sys.stderr, flush=True)


# ----------------------------------------------------------------------------- build
def build_harness():
    """Rebuilds the harness (and therefore /repo's current working tree, with hooks on)."""
    lock = os.path.join(HARNESS, "Cargo.lock")
    if not os.path.exists(lock):
        shutil.copy("/repo/Cargo.lock", lock)
    t = time.time()
    env = dict(os.environ, CARGO_NET_OFFLINE="true")
    p = subprocess.run(["cargo", "build", "--offline", "--quiet"], cwd=HARNESS, env=env,
                       stdout=subprocess.PIPE, stderr=subprocess.STDOUT, text=True)
    if p.returncode != 0:
        log(p.stdout[-4000:])
        raise ToolError("harness build failed (is /repo's tree compiling?)")
    log(f"[build] harness rebuilt in {time.time()-t:.1f}s")


def harness_bin(name):
    return os.path.join(HARNESS, "target", "debug", name)


# ----------------------------------------------------------------------------- TLC
class TlcResult:
    def __init__(self):
        self.generated = 0
        self.distinct = 0
        self.replay = []      # decoded JSON strings (one per REPLAY line)
        self.coverage = {}
        self.wall = 0.0
        self.out_tail = ""
        self.depth = 0


def run_tlc(module, cfg=None, env=None, workers=None, timeout=1500, simulate=None, coverage=False,
            cases_path=None, extra=None, heap=None):
    """Runs TLC on spec/<module>.tla.  REPLAY lines are decoded and written to cases_path (ndjson).
    A TLC error (invariant violated by the SPEC, evaluation error, timeout) is a tool error."""
    os.makedirs(WORK, exist_ok=True)
    import uuid
    meta = os.path.join(WORK, f"tlc-{module}-{os.getpid()}-{uuid.uuid4().hex[:8]}")
    cmd = [TLCX, "-metadir", meta, "-cleanup", "-noGenerateSpecTE",
           "-workers", str(workers or min(16, os.cpu_count() or 4)),
           "-config", (cfg or module) + ".cfg"]
    if simulate:
        cmd += ["-simulate", simulate]
    if coverage:
        cmd += ["-coverage", "1"]
    if extra:
        cmd += extra
    cmd += [module + ".tla"]
    e = dict(os.environ)
    if heap:
        e["TLC_HEAP"] = heap
    e.update(env or {})
    res = TlcResult()
    t = time.time()
    casef = open(cases_path, "w") if cases_path else None
    tail = []
    errors = []
    try:
        p = subprocess.Popen(["timeout", str(timeout)] + cmd, cwd=SPEC, env=e, stdout=subprocess.PIPE,
                             stderr=subprocess.STDOUT, text=True, bufsize=1 << 20)
        prefix = '<<"REPLAY", '
        for line in p.stdout:
            if line.startswith(prefix):
                s = json.loads(line.rstrip()[len(prefix):-2])
                if casef:
                    casef.write(s + "\n")
                else:
                    res.replay.append(s)
                res.nreplay = getattr(res, "nreplay", 0) + 1
                continue
            tail.append(line)
            if len(tail) > 400:
                tail = tail[-300:]
            m = re.match(r"^(\d[\d,]*) states generated, (\d[\d,]*) distinct states found", line)
            if m:
                res.generated = int(m.group(1).replace(",", ""))
                res.distinct = int(m.group(2).replace(",", ""))
            m = re.match(r"^The number of states generated: (\d+)", line)
            if m:
                res.generated = int(m.group(1)); res.distinct = int(m.group(1))
            m = re.match(r"^The depth of the complete state graph search is (\d+)", line)
            if m:
                res.depth = int(m.group(1))
            m = re.match(r"^<(\w+) line \d+, col \d+ to line \d+, col \d+ of module (\w+)>: (\d+):(\d+)", line)
            if m:
                res.coverage[m.group(1)] = res.coverage.get(m.group(1), 0) + int(m.group(4))
            if line.startswith("Error:") or "is violated" in line or "Assumption" in line and "false" in line:
                errors.append(line.strip())
        p.wait()
    finally:
        if casef:
            casef.close()
        shutil.rmtree(meta, ignore_errors=True)
    res.wall = time.time() - t
    res.out_tail = "".join(tail[-60:])
    if not hasattr(res, "nreplay"):
        res.nreplay = 0
    if p.returncode == 124:
        raise ToolError(f"TLC timed out after {timeout}s on {module}")
    if p.returncode != 0 or errors:
        log(res.out_tail)
        raise ToolError(f"TLC reported an error on {module} (rc={p.returncode}): {errors[:3]} - "
                        "the SPECIFICATION is inconsistent; this is not a verdict about the code")
    log(f"[tlc] {module}: {res.distinct} distinct states, {res.generated} generated, "
        f"{res.nreplay} behaviours exported, {res.wall:.1f}s")
    return res


# ----------------------------------------------------------------------------- replay
def run_replay(binary, args, cases_path, timeout=2400, tier=None):
    """Runs a harness binary over a cases file; returns (mismatches, summary)."""
    t = time.time()
    env = dict(os.environ)
    if tier:
        env["VERIF_TIER"] = tier
    with open(cases_path) as f:
        p = subprocess.run(["timeout", str(timeout), harness_bin(binary)] + args, stdin=f, env=env,
                           stdout=subprocess.PIPE, stderr=subprocess.PIPE, text=True)
    if p.returncode != 0:
        log(p.stderr[-3000:])
        raise ToolError(f"harness {binary} failed rc={p.returncode}")
    mism, summary = [], None
    for line in p.stdout.split("\n"):           # not splitlines(): U+0085 / U+2028 inside a reported query are not line ends
        if not line.strip():
            continue
        d = json.loads(line)
        if d.get("kind") == "summary":
            summary = d
        else:
            mism.append(d)
    if summary is None:
        raise ToolError(f"harness {binary} produced no summary")
    log(f"[replay] {binary} {' '.join(args)}: {summary.get('cases')} cases, {len(mism)} mismatches, {time.time()-t:.1f}s")
    return mism, summary


def find_case(cases_path, case_id):
    with open(cases_path) as f:
        for line in f:
            if json.loads(line).get("id") == case_id:
                return json.loads(line)
    return None


# ----------------------------------------------------------------------------- known findings
def load_known():
    p = os.path.join(VERIF, "known-findings.json")
    with open(p) as f:
        return json.load(f)


def _cls_selector_major(m, params):
    # D1: a segment with >= 2 selectors received >= 2 input nodes AND the observed sequence is exactly
    # the specification's sequence with segments evaluated selector-major (spec: DenoteSM)
    return m.get("check") in ("order",) and m.get("selector_major") is True and m.get("same_multiset") is True


def _name_of(step):
    return "".join(map(chr, step["n"]))


def _needs_escape(name):
    return any(c in "'\\" or ord(c) < 0x20 for c in name)


def _raw_path(loc):
    """The implementation's path rendering (state.rs Pointer::key/idx): member names embedded unescaped;
    a name that begins and ends with ' is taken to be already quoted."""
    out = "$"
    for st in loc:
        if st["k"] == "i":
            out += f"[{st['i']}]"
        else:
            n = _name_of(st)
            out += f"[{n}]" if (n.startswith("'") and n.endswith("'")) else f"['{n}']"
    return out


def _cls_np_raw_name(m, params):
    # D11: the node's location contains a member name that needs escaping in a Normalized Path
    # (', \ or a C0 control) AND the reported path is exactly the raw embedding of the names
    loc = m.get("node_loc")
    if m.get("check") != "paths" or loc is None or "actual_path" not in m or "expected_path" not in m:
        return False
    if not any(st["k"] == "n" and _needs_escape(_name_of(st)) for st in loc):
        return False
    return m["actual_path"] == _raw_path(loc)


def _cls_feedback_raw_path(m, params):
    # D11 seen through C09: the path REPORTED BY A QUERY embeds a member name unescaped, so it cannot be fed back
    loc = m.get("node_loc")
    if m.get("check") not in ("refstore", "feedback") or m.get("op") != "feedback" or not loc:
        return False
    if not any(st["k"] == "n" and _needs_escape(_name_of(st)) for st in loc):
        return False
    return m.get("actual_path") == _raw_path(loc)


CLASSIFIERS = {
    "feedback_raw_path": _cls_feedback_raw_path,
    "selector_major": _cls_selector_major,
    "np_raw_name": _cls_np_raw_name,
}


def register_classifier(name):
    def deco(f):
        CLASSIFIERS[name] = f
        return f
    return deco


def classify(prop, mismatches):
    """Splits mismatches into (violations, {finding_id: [mismatch,...]})."""
    def applies(k):
        pr = k.get("property")
        return prop in pr if isinstance(pr, list) else pr == prop
    known = [k for k in load_known().get("findings", []) if applies(k) and k.get("status", "open") == "open"]
    viol, hits = [], {}
    for m in mismatches:
        hit = None
        for k in known:
            f = CLASSIFIERS.get(k["classifier"])
            if f and f(m, k.get("params", {})):
                hit = k
                break
        if hit:
            hits.setdefault(hit["id"], []).append(m)
        else:
            viol.append(m)
    return viol, hits, {k["id"]: k for k in known}


# ----------------------------------------------------------------------------- evidence
class Evidence:
    def __init__(self, prop, tier, seed, level="model_checking"):
        self.prop, self.tier, self.seed, self.level = prop, tier, seed, level
        self.t0 = time.time()
        self.states = 0
        self.transitions = 0
        self.traces = 0
        self.evaluations = 0
        self.distinct_nontrivial = 0
        self.samples = []
        self.stages = []
        self.assumptions = []
        self.rule = ""
        self.exhaustive = None
        self.extra = {}
        self.violations = 0
        self.known_hits = {}

    def add_tlc(self, name, r, note=""):
        self.states += r.distinct
        self.transitions += r.generated
        self.stages.append({"stage": name, "tlc_distinct_states": r.distinct, "tlc_states_generated": r.generated,
                            "behaviours_exported": r.nreplay, "depth": r.depth, "wall_s": round(r.wall, 1),
                            "note": note, **({"coverage": r.coverage} if r.coverage else {})})

    def write(self):
        os.makedirs(EVID, exist_ok=True)
        cov = {"states": self.states, "transitions": self.transitions,
               "traces_validated_against_impl": self.traces,
               "evaluations": self.evaluations, "distinct_nontrivial": self.distinct_nontrivial,
               "rule": self.rule, "samples": self.samples[:8], "stages": self.stages,
               "known_findings_hit": {k: len(v) for k, v in self.known_hits.items()}}
        if self.exhaustive is not None:
            cov["exhaustive"] = self.exhaustive
        cov.update(self.extra)
        ev = {"property_id": self.prop, "tier": self.tier, "seed": self.seed, "level": self.level,
              "coverage": cov, "assumptions": self.assumptions, "wall_s": round(time.time() - self.t0, 1),
              "violations": self.violations}
        with open(os.path.join(EVID, f"{self.prop}.json"), "w") as f:
            json.dump(ev, f, indent=1, ensure_ascii=False)
            f.write("\n")


def report(ev, prop, violations, hits, known_by_id, cases_lookup=None):
    """Prints KNOWN-FINDING / VIOLATION lines, writes replay files; returns the exit code."""
    ev.known_hits = hits
    for fid, ms in hits.items():
        k = known_by_id[fid]
        print(f"KNOWN-FINDING: property={prop} {fid} {k['what']} ({len(ms)} cases this run, e.g. {ms[0].get('q')!r} on {json.dumps(ms[0].get('doc'))[:120]})")
    ev.violations = len(violations)
    if not violations:
        return 0
    os.makedirs(REPLAYS, exist_ok=True)
    # group similar violations so that the first lines show different things
    seen = {}
    for m in violations:
        key = (m.get("check"), str(m.get("what"))[:80])
        seen.setdefault(key, []).append(m)
    shown = 0
    for key, ms in seen.items():
        for m in ms[:2]:
            if shown >= MAX_VIOLATION_LINES:
                break
            h = hashlib.sha1(json.dumps(m, sort_keys=True).encode()).hexdigest()[:10]
            path = os.path.join(REPLAYS, f"{prop}-{h}.json")
            case = cases_lookup(m) if cases_lookup else None
            with open(path, "w") as f:
                json.dump({"property": prop, "mismatch": m, "case": case}, f, ensure_ascii=False)
            print(f"VIOLATION property={prop} replay={path}")
            print(f"  {m.get('check')}: {m.get('what')} | query={m.get('q')!r} doc={json.dumps(m.get('doc'), ensure_ascii=False)[:200]} "
                  f"expected={m.get('expect')} actual={m.get('actual', m.get('actual_path'))}")
            shown += 1
    print(f"[{prop}] {len(violations)} violating cases in {len(seen)} groups")
    return 1


# ----------------------------------------------------------------------------- stages
def eval_stage(ev, prop, universe, checks, tier, seed, timeout=1500, label=None, mode=None, cfg=None):
    """Evaluation machine over one universe, every finished behaviour replayed into the code."""
    cases = os.path.join(WORK, f"{prop}-{universe}-{os.getpid()}.cases")
    env = {"VERIF_UNIVERSE": universe, "VERIF_TIER": tier, "VERIF_SEED": str(seed)}
    if mode:
        env["VERIF_MODE"] = mode
    r = run_tlc("Evaluator", cfg=cfg, env=env, cases_path=cases, timeout=timeout)
    if r.nreplay == 0:
        raise ToolError(f"universe {universe} produced no behaviours (vacuous)")
    ev.add_tlc(label or f"Evaluator[{universe}]", r,
               "invariants TypeOK NodesAreLocations SmallStepIsDenotation PrefixDenotation PreOrder PathRoundTrip "
               "SMOnlyThere; action properties InputMajorOrder ChildDepth DocUnchanged")
    if universe == "C15":
        _sorted_docs_first(cases)
    mism, summary = run_replay("replay", ["--checks", checks], cases, tier=tier)
    ev.traces += summary["cases"]
    ev.evaluations += summary["cases"]
    ev.distinct_nontrivial += summary["nonempty_expect"]
    _acc(ev, summary)
    ev.extra.setdefault("feature_counts", {})[label or f"Evaluator[{universe}]"] = feature_counts(cases)
    # samples
    with open(cases) as f:
        for i, line in enumerate(f):
            if i % max(1, summary["cases"] // 3) == 0 and len(ev.samples) < 8:
                c = json.loads(line)
                ev.samples.append({"query": "".join(map(chr, c["q"])), "doc": sval_to_json(c["doc"]),
                                   "spec_nodelist": [loc_disp(l) for l in c["expect"]]})
    return mism, cases


_FEATURES = [("descendant", r"\.\."), ("wildcard", r"\*"), ("filter", r"\?"), ("union", r"\[[^\]\[]*,"), ("slice", r"\[[^\]'\"]*:"),
             ("negative_index", r"\[-\d+\]"), ("name", r"\['"), ("and", r"&&"), ("or", r"\|\|"), ("not", r"!(?!=)"), ("paren", r"\("),
             ("eq", r"=="), ("ne", r"!="), ("lt", r"<(?!=)"), ("le", r"<="), ("gt", r">(?!=)"), ("ge", r">="), ("root_in_filter", r"\?.*\$"),
             ("length", r"length\("), ("count", r"count\("), ("value", r"value\("), ("match", r"match\("), ("search", r"search\("),
             ("nested_filter", r"\?[^\]]*\?"), ("blank", r"[ \t\n\r]"), ("escape", r"\\\\"), ("double_quote", r'"'), ("exponent", r"\d[eE][-+]?\d")]


def _sorted_docs_first(cases_path):
    """Universe C15 mixes key-sorted documents (run on serde_json::Value AND on J) with insertion-ordered ones (J only).
    One process replays them all; the sorted ones go first so that the history is: the engine has seen the library's own
    data type, then meets the other (a legitimate history - process-wide state must not carry over)."""
    def key_sorted(v):
        ks = ["".join(map(chr, k)) for k in v.get("keys", [])]
        return ks == sorted(ks) and all(key_sorted(k) for k in v.get("kids", []))
    with open(cases_path) as f:
        lines = [l for l in f.read().split("\n") if l.strip()]
    first, rest = [], []
    for l in lines:
        (first if key_sorted(json.loads(l)["doc"]) else rest).append(l)
    with open(cases_path, "w") as f:
        f.write("\n".join(first + rest) + "\n")


def feature_counts(cases_path, limit=200000):
    """How many exported cases exercise which syntactic feature (a cheap vacuity indicator, recorded in the evidence)."""
    import re as _re
    pats = [(n, _re.compile(p)) for n, p in _FEATURES]
    cnt = {n: 0 for n, _ in _FEATURES}
    total = 0
    with open(cases_path) as f:
        for line in f:
            total += 1
            if total > limit:
                break
            m = _re.search(r'"q":\[([0-9,]*)\]', line)
            if not m or not m.group(1):
                continue
            q = "".join(chr(int(x)) for x in m.group(1).split(","))
            for n, p in pats:
                if p.search(q):
                    cnt[n] += 1
    return {k: v for k, v in cnt.items() if v}


def _acc(ev, summary):
    d = ev.extra.setdefault("per_check_cases", {})
    for k, v in summary.get("checks", {}).items():
        d[k] = d.get(k, 0) + v


def sval_to_json(v):
    t = v["t"]
    if t == "null": return None
    if t == "bool": return v["b"]
    if t == "num":
        if not v["f"] and v["e"] >= 0: return v["m"] * 10 ** v["e"]
        return float(f"{v['m']}e{v['e']}")
    if t == "str": return "".join(map(chr, v["s"]))
    if t == "arr": return [sval_to_json(k) for k in v["kids"]]
    if t == "obj": return {"".join(map(chr, k)): sval_to_json(x) for k, x in zip(v["keys"], v["kids"])}
    return "<nothing>"


def loc_disp(l):
    return "$" + "".join(f"[{s['i']}]" if s["k"] == "i" else "[" + json.dumps("".join(map(chr, s["n"])), ensure_ascii=False) + "]" for s in l)


# ----------------------------------------------------------------------------- properties
def tlc_only_stage(ev, module, tier, seed, note, timeout=1200, cfg=None, env=None, coverage=False):
    """A machine whose properties TLC checks on the specification side only."""
    e = {"VERIF_TIER": tier, "VERIF_SEED": str(seed)}
    e.update(env or {})
    r = run_tlc(module, cfg=cfg, env=e, timeout=timeout, coverage=coverage)
    ev.add_tlc(module if not cfg else f"{module}[{cfg}]", r, note)
    return r


def make_prop(prop, stages, rule, assumptions, level="model_checking"):
    """stages: list of callables (ev, tier, seed) -> (mismatches, cases_path or None)."""
    def run(tier, seed):
        ev = Evidence(prop, tier, seed, level)
        ev.rule = rule
        ev.assumptions = assumptions
        build_harness()
        all_m, tmpfiles = [], []
        for st in stages:
            mism, cases = st(ev, tier, seed)
            for m in mism:
                m["_cases"] = cases
            all_m += mism
            if cases:
                tmpfiles.append(cases)
        viol, hits, kb = classify(prop, all_m)

        def lookup(m):
            c = m.pop("_cases", None)
            return find_case(c, m.get("id")) if c else None
        rc = report(ev, prop, viol, hits, kb, lookup)
        ev.exhaustive = False
        ev.write()
        for f in tmpfiles:
            try:
                os.remove(f)
            except OSError:
                pass
        return rc
    return run


def grammar_stage(ev, prop, mode, checks, tier, seed, timeout=3000):
    """Grammar machine (generator + mutations), every exported sentence labelled by the recogniser and replayed."""
    cases = os.path.join(WORK, f"{prop}-grammar-{mode}-{os.getpid()}.cases")
    env = {"VERIF_GRAMMAR": mode, "VERIF_TIER": tier, "VERIF_SEED": str(seed)}
    r = run_tlc("Grammar", env=env, cases_path=cases, timeout=timeout)
    if r.nreplay == 0:
        raise ToolError(f"grammar mode {mode} produced no sentences (vacuous)")
    ev.add_tlc(f"Grammar[{mode}]", r, "invariants GenSound GenSoundNeg SpellingSame RoundTrip (generator vs recogniser JPParse)")
    mism, summary = run_replay("replay", ["--checks", checks], cases)
    ev.traces += summary["cases"]
    ev.evaluations += summary["cases"]
    ev.distinct_nontrivial += summary["distinct"]
    _acc(ev, summary)
    ev.extra.setdefault("feature_counts", {})[f"Grammar[{mode}]"] = feature_counts(cases)
    with open(cases) as f:
        for i, line in enumerate(f):
            if i % max(1, summary["cases"] // 4) == 0 and len(ev.samples) < 8:
                c = json.loads(line)
                ev.samples.append({"sentence": "".join(map(chr, c["q"])), "kind": c["kind"], "recogniser_verdict": c["verdict"]})
    return mism, cases


def refstore_stage(ev, prop, tier, seed, timeout=3000):
    """RefStore machine: histories of reads/writes through paths, replayed against reference/reference_mut."""
    cases = os.path.join(WORK, f"{prop}-refstore-{os.getpid()}.cases")
    r = run_tlc("RefStore", env={"VERIF_TIER": tier, "VERIF_SEED": str(seed)}, cases_path=cases, timeout=timeout)
    if r.nreplay == 0:
        raise ToolError("RefStore produced no histories (vacuous)")
    ev.add_tlc("RefStore", r, "invariants LastWriteFrame DanglingIsNoop PathsInjective")
    mism, summary = run_replay("replay", ["--checks", "refstore"], cases)
    ev.traces += summary["cases"]
    ev.evaluations += summary["cases"]
    ev.distinct_nontrivial += summary["nonempty_expect"]
    _acc(ev, summary)
    with open(cases) as f:
        for i, line in enumerate(f):
            if i % max(1, summary["cases"] // 4) == 0 and len(ev.samples) < 8:
                c = json.loads(line)
                ev.samples.append({"doc": sval_to_json(c["doc"]),
                                   "history": [f"{o['op']} {''.join(map(chr, o['path']))}" + (f" := {json.dumps(sval_to_json(o['value']))}" if o["op"] == "write" else "") + ("" if o["exists"] else "  (dangling)") for o in c["ops"]]})
    return mism, cases


def run_worker(cases_path, events_path, per_case_timeout=20.0, max_crashes=1000):
    """Runs harness `worker` over the cases in child processes; a child that dies or hangs is data:
    a {"ev":"crash"} event is synthesised for the call that never returned and the rest of the cases
    continue in a fresh child.  The first call event of each case is enriched with the recogniser's
    verdict (when TLC exported it) or with the query string (so that TLC can decide)."""
    with open(cases_path) as f:
        cases = [json.loads(l) for l in f if l.strip()]
    by_id = {json.dumps(c["id"]): c for c in cases}
    pos, crashes, n_events = 0, [], 0
    with open(events_path, "w") as out:
        while pos < len(cases):
            batch = cases[pos:]
            p = subprocess.Popen([harness_bin("worker")], stdin=subprocess.PIPE, stdout=subprocess.PIPE, stderr=subprocess.PIPE, text=True)
            import threading
            def feed(proc=p, b=batch):
                try:
                    for c in b:
                        proc.stdin.write(json.dumps(c) + "\n")
                    proc.stdin.close()
                except BrokenPipeError:
                    pass
            th = threading.Thread(target=feed, daemon=True)
            th.start()
            import queue
            qlines = queue.Queue()
            def pump(proc=p, ql=qlines):
                for ln in proc.stdout:
                    ql.put(ln)
                ql.put(None)
            threading.Thread(target=pump, daemon=True).start()
            open_call, seen_first = None, set()
            timed_out = False
            while True:
                try:
                    line = qlines.get(timeout=per_case_timeout)
                except queue.Empty:
                    timed_out = True
                    p.kill()
                    break
                if line is None:
                    break
                e = json.loads(line)
                key = json.dumps(e["id"])
                if e["ev"] == "call":
                    open_call = e
                    if key not in seen_first:
                        seen_first.add(key)
                        c = by_id[key]
                        if "verdict" in c:
                            e["verdict"] = c["verdict"]
                        else:
                            e["q"] = c["q"] if not isinstance(c["q"], str) else [ord(ch) for ch in c["q"]]
                else:
                    open_call = None
                e = {k: v for k, v in e.items() if v is not None}      # the TLA+ Json module has no null
                out.write(json.dumps(e) + "\n")
                n_events += 1
            p.wait()
            # how many cases were completed: count distinct ids that returned from their last entry
            if open_call is None and p.returncode == 0 and not timed_out:
                pos = len(cases)
                break
            # crashed or hung inside open_call (or died between calls)
            if open_call is not None:
                crash = {"ev": "crash", "id": open_call["id"], "entry": open_call["entry"],
                         "how": "timeout" if timed_out else f"exit status {p.returncode}",
                         "stderr": (p.stderr.read() or "")[-300:] if not timed_out else ""}
                out.write(json.dumps(crash) + "\n"); n_events += 1
                crashes.append(crash)
                if len(crashes) >= max_crashes:
                    log(f"[worker] {len(crashes)} crashes/timeouts: stopping early, the remaining cases are not explored")
                    break
                idx = next(i for i, c in enumerate(cases) if json.dumps(c["id"]) == json.dumps(open_call["id"]))
                pos = idx + 1
            else:
                raise ToolError(f"worker ended abnormally outside a call (rc={p.returncode})")
    return n_events, crashes


def validate_trace(ev, module, trace_path, label, timeout=1200):
    """impl -> spec: TLC checks a recorded trace against a trace specification; returns the MISMATCH records."""
    t = time.time()
    import uuid
    meta = os.path.join(WORK, f"tlc-{module}-{os.getpid()}-{uuid.uuid4().hex[:8]}")
    cmd = ["timeout", str(timeout), TLCX, "-metadir", meta, "-cleanup", "-noGenerateSpecTE", "-workers", "1",
           "-config", module + ".cfg", module + ".tla"]
    e = dict(os.environ, TRACE=os.path.abspath(trace_path), TLC_JAVA_OPTS="-Dtlc2.tool.queue.IStateQueue=StateDeque")
    p = subprocess.run(cmd, cwd=SPEC, env=e, stdout=subprocess.PIPE, stderr=subprocess.STDOUT, text=True)
    shutil.rmtree(meta, ignore_errors=True)
    mism, summary, generated, distinct = [], None, 0, 0
    for line in p.stdout.split("\n"):
        if line.startswith('<<"MISMATCH", '):
            mism.append(json.loads(json.loads(line[len('<<"MISMATCH", '):-2])))
        elif line.startswith('<<"TRACE-SUMMARY", '):
            summary = json.loads(json.loads(line[len('<<"TRACE-SUMMARY", '):-2]))
        m = re.match(r"^(\d[\d,]*) states generated, (\d[\d,]*) distinct states found", line)
        if m:
            generated = int(m.group(1).replace(",", "")); distinct = int(m.group(2).replace(",", ""))
    if p.returncode != 0 or summary is None:
        log(p.stdout[-3000:])
        raise ToolError(f"trace validation with {module} failed (rc={p.returncode})")
    if summary["consumed"] < summary["events"]:
        raise ToolError(f"trace validation with {module} did not consume the whole trace: {summary}")
    r = TlcResult(); r.generated = generated; r.distinct = distinct; r.nreplay = 0; r.wall = time.time() - t
    ev.add_tlc(label, r, f"trace validation: {summary['events']} recorded events, {summary['mismatches']} not allowed by the specification")
    ev.traces += summary["events"]
    log(f"[trace] {module}: {summary['events']} events validated, {len(mism)} mismatches, {time.time()-t:.1f}s")
    return mism, summary


def session_stage(ev, prop, tier, seed, timeout=3000):
    """Session machine: every interleaving of two threads' programs, replayed sequentially and by real threads."""
    cases = os.path.join(WORK, f"{prop}-session-{os.getpid()}.cases")
    r = run_tlc("Session", env={"VERIF_TIER": tier, "VERIF_SEED": str(seed)}, cases_path=cases, timeout=timeout, workers=8)
    if r.nreplay == 0:
        raise ToolError("Session produced no histories (vacuous)")
    ev.add_tlc("Session", r, "invariants HistoryIndependent NoOpenCall, action property ReadsDoNotWrite")
    mism, summary = run_replay("replay", ["--checks", "session"], cases, tier=tier, timeout=5400)
    ev.traces += summary["cases"]
    ev.evaluations += summary["cases"]
    ev.distinct_nontrivial += summary["distinct"]
    _acc(ev, summary)
    with open(cases) as f:
        for i, line in enumerate(f):
            if i % max(1, summary["cases"] // 3) == 0 and len(ev.samples) < 8:
                c = json.loads(line)
                qs = ["".join(map(chr, q)) for q in c["queries"]]
                ev.samples.append({"history": [(f"t{e['t']} write doc{e['op']['d']} {''.join(map(chr, e['wpath']))}" if e["ev"] == "write"
                                                else f"t{e['t']} {e['ev']} {e['op']['e']}({qs[e['op']['q'] - 1]}) doc{e['op']['d']}") for e in c["hist"]]})
    return mism, cases


def stress_stage(ev, prop, tier, seed, timeout=600):
    """Stress.tla: the table (query, document) -> result, run by 8 real threads released together as the very first
    thing a FRESH process does (first use of large indexes / long member names is concurrent); several processes."""
    cases = os.path.join(WORK, f"{prop}-stress-{os.getpid()}.cases")
    r = run_tlc("Stress", env={"VERIF_TIER": tier, "VERIF_SEED": str(seed)}, cases_path=cases, timeout=timeout, workers=2)
    if r.nreplay != 1:
        raise ToolError("Stress did not export its table")
    ev.add_tlc("Stress", r, "invariant OneResultPerRow; exports the table of expected results per (query, document) row")
    allm = []
    procs = 12 if tier == "thorough" else 4
    total = 0
    for _ in range(procs):
        mism, summary = run_replay("replay", ["--checks", "stress"], cases, tier=tier)
        total += summary["checks"].get("stress_evaluations", 0)
        allm += mism
        if mism:
            break
    ev.traces += procs
    ev.evaluations += total
    ev.distinct_nontrivial += 16
    ev.extra["stress"] = {"fresh_processes": procs, "threads_each": 8, "concurrent_evaluations": total}
    return allm, cases


def long_session_stage(ev, prop, tier, seed, timeout=1500):
    """LongSession: TLC -simulate generates long single-thread histories (thousands of operations with writes in
    between); each is replayed sequentially in one process against long-lived parsed queries and documents."""
    cases = os.path.join(WORK, f"{prop}-longsession-{os.getpid()}.cases")
    depth = 8100 if tier == "thorough" else 4100
    r = run_tlc("LongSession", env={"VERIF_TIER": tier, "VERIF_SEED": str(seed)}, cases_path=cases, timeout=timeout, workers=4,
                simulate=f"num={3 if tier == 'thorough' else 1}", extra=["-depth", str(depth), "-seed", str(seed + 1)])
    if r.nreplay == 0:
        raise ToolError("LongSession produced no histories (vacuous)")
    ev.add_tlc("LongSession (simulation)", r, f"{r.nreplay} random histories of {depth - 100} operations each (tlc -simulate)")
    mism, summary = run_replay("replay", ["--checks", "session"], cases, tier=tier)
    ev.traces += summary["cases"]
    ev.evaluations += summary["cases"]
    ev.distinct_nontrivial += summary["distinct"]
    ev.extra["long_session"] = {"histories": summary["cases"], "operations_each": depth - 100}
    return mism, cases


def short_strings_stage(ev, prop, tier, seed, timeout=2400):
    """ShortStrings: every string of length <= 4 (thorough 5) over a 17-symbol alphabet, judged by the recogniser."""
    cases = os.path.join(WORK, f"{prop}-short-{os.getpid()}.cases")
    r = run_tlc("ShortStrings", env={"VERIF_TIER": tier}, cases_path=cases, timeout=timeout)
    ev.add_tlc("ShortStrings", r, "all strings over the alphabet up to the length bound (exhaustive); invariant Sanity")
    mism, summary = run_replay("replay", ["--checks", "reject,accept"], cases)
    ev.traces += summary["cases"]
    ev.evaluations += summary["cases"]
    ev.distinct_nontrivial += summary["distinct"]
    _acc(ev, summary)
    ev.extra["short_strings"] = {"strings": summary["cases"], "exhaustive_up_to_length": 5 if tier == "thorough" else 4,
                                 "verdicts": {k: v for k, v in summary.get("checks", {}).items() if k.startswith("verdict_")}}
    return mism, cases


def GS(prop, mode, checks):
    return lambda ev, tier, seed: grammar_stage(ev, prop, mode, checks, tier, seed)


def ES(prop, universe, checks, label=None, mode=None, cfg=None):
    return lambda ev, tier, seed: eval_stage(ev, prop, universe, checks, tier, seed, label=label, mode=mode, cfg=cfg)


PROPS = {}


def do_replay(prop, path):
    """Re-runs one recorded violation."""
    with open(path) as f:
        rec = json.load(f)
    case = rec.get("case")
    if case is None:
        raise ToolError("replay file has no case")
    build_harness()
    tmp = os.path.join(WORK, f"replay-{os.getpid()}.cases")
    os.makedirs(WORK, exist_ok=True)
    with open(tmp, "w") as f:
        f.write(json.dumps(case) + "\n")
    binary = rec.get("binary", "replay")
    args = rec.get("args") or ["--checks", rec["mismatch"].get("check", "nodes")]
    mism, summary = run_replay(binary, args, tmp)
    os.remove(tmp)
    viol, hits, kb = classify(prop, mism)
    for m in viol:
        print(f"VIOLATION property={prop} replay={path}")
        print("  " + json.dumps(m, ensure_ascii=False)[:1500])
    if not viol:
        print(f"[{prop}] replay: no violation reproduced ({len(mism)} mismatches, all known)" if mism else f"[{prop}] replay: case passes")
    return 1 if viol else 0


def main(argv):
    if not argv:
        print(__doc__)
        sys.exit(2)
    prop = argv[0]
    tier = os.environ.get("VERIF_TIER", "quick")
    replay = None
    i = 1
    while i < len(argv):
        if argv[i] == "--tier":
            tier = argv[i + 1]; i += 1
        elif argv[i] == "--replay":
            replay = argv[i + 1]; i += 1
        i += 1
    seed = int(os.environ.get("VERIF_SEED", "0") or 0)
    os.makedirs(WORK, exist_ok=True)
    try:
        if replay:
            sys.exit(do_replay(prop, replay))
        import props  # noqa: F401  (fills PROPS)
        if prop not in PROPS:
            raise ToolError(f"unknown property {prop}")
        rc = PROPS[prop](tier, seed)
        print(f"[{prop}] tier={tier} seed={seed} -> {'OK' if rc == 0 else 'VIOLATIONS'}")
        sys.exit(rc)
    except ToolError as e:
        print(f"TOOL-ERROR {prop}: {e}", file=sys.stderr)
        sys.exit(2)
    except SystemExit:
        raise
    except BaseException as e:          # a bug of the machinery is a tool error, never a verdict
        import traceback
        traceback.print_exc()
        print(f"TOOL-ERROR {prop}: unexpected {type(e).__name__}: {e}", file=sys.stderr)
        sys.exit(2)
