HOOKS = {
    "guard": "jsonpath_rust_verif",
    "enable": "RUSTFLAGS --cfg jsonpath_rust_verif, set for every harness build by /verif/harness/.cargo/config.toml",
    "baseline_off_cmd": "cd /repo && cargo test --workspace --no-fail-fast --offline",
    "source_commits": [],
    "add_only": True,
}
ENGINES = [
    {"name": "tlc", "path": "/verif/bin/tlcx", "serves_properties": [], "kind_free_text": "TLC 1.8.0 model checker over /verif/spec/*.tla (explicit TLA+ specification of RFC 9535 semantics, the evaluation machine, grammar, API machines)"},
    {"name": "harness", "path": "/verif/harness", "serves_properties": [], "kind_free_text": "Rust conformance harness (path dependency on /repo): replays TLC behaviours into the real code, records traces of the real code for TLC trace validation"},
]
NOTES = "Model-based verification with an explicit TLA+ specification; see DESIGN.md. Exit codes: 0 held / 1 VIOLATION / 2 tool error."
BASE_NOTE = ("Trusted: TLC; the TLA+ transcription of RFC 9535 (anchored by the RFC example tables as ASSUMEs); the harness' address-based node identity; "
             "bounded universes (spec/Universes.tla) - beyond them only seeded random traces validated against the same spec.")
T_EVAL = "TLC model checking of Evaluator.tla (evaluation machine over a bounded universe) + bounded-exhaustive replay of every TLC behaviour into the implementation"
CLAIMED = {
 "C01": {"text": "TLC checks the evaluation machine (invariants NodesAreLocations, SmallStepIsDenotation, PrefixDenotation, ChildDepth) over a bounded universe of documents x queries and every finished behaviour is replayed into the real code: the multiset of result addresses must equal the specification's nodelist and every result must be a node of the caller's document.",
         "note": BASE_NOTE, "technique": T_EVAL},
 "C02": {"text": "Same behaviours as C01 but the result SEQUENCE must equal the specification's (action property InputMajorOrder, invariant PreOrder on the spec side). The implementation's selector-major deviation D1 is modelled as a named operator (DenoteSM) and is the only tolerated disagreement.",
         "note": BASE_NOTE, "technique": T_EVAL + "; known finding D1 classified by the spec's DenoteSM"},
 "C03": {"text": "Spec operator NormalizedPath (RFC 9535 2.7) with TLC-checked invariant PathRoundTrip (injective, re-query returns the node); every behaviour over documents with hostile member names is replayed: each reported path must equal the spec's Normalized Path of the node found by ADDRESS, equal paths <=> same node, and re-running the path must return exactly that node.",
         "note": BASE_NOTE + " Known finding D11 (unescaped names in paths, pinned by unit tests) is classified narrowly: actual path == raw embedding of a name that needs escaping.", "technique": T_EVAL},
 "C04": {"text": "The comparison table of RFC 9535 2.3.5.2.2 transcribed as Compare/JEq/NumLt/StrLt; all pairs of operand values (every JSON type, int/float spellings, NOTHING) x 6 operators x operand forms (literal, @-query, $-query, value(), length(), count()) are embedded as $[?lhs op rhs] and replayed; the child must be selected iff Compare is true.",
         "note": BASE_NOTE + " Numbers: decimal m*10^e with |m| small; mathematical comparison coincides with f64 comparison on this universe.", "technique": T_EVAL},
 "C05": {"text": "EvalLx (and/or/not/paren, existence tests, nested filters, @/$ scoping) evaluated by TLC over logical expressions of depth <= 3 on children that cover absence and every falsy value; replayed; selected children compared in order.",
         "note": BASE_NOTE, "technique": T_EVAL},
 "C06": {"text": "Grammar.tla reads RFC 9535 Appendix A as a non-deterministic generator (one action family per production, blank space at every S, quote styles, escape forms, notations, redundant parentheses, number spellings); TLC enumerates all derivations within a variation budget, checks against the independent recogniser JPParse.tla that each is valid (GenSound) and parses back to the same AST (RoundTrip), and every sentence is fed to parse_json_path and JsonPath::query, which must accept it.",
         "note": BASE_NOTE + " The ABNF is transcribed from memory, twice (generator and recogniser), and the two are cross-checked by TLC.", "technique": "TLC enumeration of the grammar machine Grammar.tla (generator) cross-checked against the recogniser JPParse.tla + replay of every sentence into the parser"},
 "C07": {"text": "Every single-character edit (delete / insert / replace / transpose) of every canonical sentence, and renderings of ill-typed and out-of-range abstract queries, are labelled by the recogniser JPParse.tla + WellTyped (valid / invalid / unscoped); the parser must reject every invalid one (parse_json_path is Err and JsonPath::query is Err) and accept every valid one.",
         "note": BASE_NOTE + " Strings outside the property's statement (unknown function names, blanks inside singular-query brackets, number literals beyond the model's precision) are labelled unscoped and skipped.", "technique": "TLC enumeration of Grammar.tla with Mutate actions, oracle = recogniser JPParse.tla; replay into the parser"},
 "C13": {"text": "All spellings (within the variation budget) that the grammar machine derives from one abstract query are evaluated on three probe documents and must return exactly the specification's nodelist of the abstract query, in order; on the spec side TLC checks SpellingSame (every spelling parses to an AST with the same denotation).",
         "note": BASE_NOTE + " Escape-sequence spellings are not part of C13's statement (they are in C06). Known finding D1 applies.", "technique": "TLC enumeration of Grammar.tla + replay of every spelling, compared with Denote of the abstract query"},
 "C10": {"text": "Regex.tla (I-Regexp core: matching by split semantics, parser for pattern text) and the function operators of JPSemantics; ~600 patterns x subject strings for match/search, every JSON type and NOTHING for length/count/value; replayed.",
         "note": BASE_NOTE + " Patterns with ^/$ excluded (ambiguous between RFC 9485 and the implementation's dialect).", "technique": T_EVAL},
 "C11": {"text": "SliceLoop.tla models the implementation's slice loop; TLC proves (bounded) that it emits exactly the declarative RFC sequence, stays in range, iterates at most len times and terminates (liveness). All (start,end,step) in a window around len plus +-BIG (abstraction of +-(2^53-1)) x lengths 0..6 and all indices are replayed into the code, also under a descendant segment.",
         "note": BASE_NOTE + " BIG abstraction justified by saturation of the RFC formula (DESIGN 3.1).", "technique": "TLC model checking of SliceLoop.tla (safety + liveness) and Evaluator.tla + replay of every slice/index behaviour"},
 "C12": {"text": "Every TLC behaviour is executed through query, query_only_path, query_with_path and a prepared JpQuery (js_path_process), twice, with a document snapshot before and after: results must agree position by position, be repeatable, and leave the document unchanged (spec: DocUnchanged).",
         "note": BASE_NOTE, "technique": T_EVAL + " through all entry points"},
 "C14": {"text": "ExtFn (in, nin, none_of, any_of, subset_of) in JPSemantics; all (x, L) pairs over element values, arrays of them (nested, duplicates, empty), non-arrays and missing members, also negated and with $-rooted arguments; replayed.",
         "note": BASE_NOTE + " 1 vs 1.0 excluded (property silent on which equality).", "technique": T_EVAL},
 "C15": {"text": "The same TLC behaviours (C01, C04, C05, C10 universes) are executed on serde_json::Value and on a second, differently represented Queryable implementation J; paths and values must agree position by position.",
         "note": BASE_NOTE + " J is assumed to be a faithful implementation of the trait documentation.", "technique": T_EVAL + " at two Queryable instantiations (differential)"},
}
NOT_APPLICABLE = {}
