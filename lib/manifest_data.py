HOOKS = {
    "guard": "jsonpath_rust_verif",
    "enable": "RUSTFLAGS --cfg jsonpath_rust_verif, set for every harness build by /verif/harness/.cargo/config.toml",
    "baseline_off_cmd": "cd /repo && cargo test --workspace --no-fail-fast --offline",
    "source_commits": [],
    "add_only": True,
}
ENGINES = [
    {"name": "tlc", "path": "/verif/bin/tlcx", "serves_properties": [], "kind_free_text": "TLC 1.8.0 model checker over /verif/spec/*.tla (explicit TLA+ specification of RFC 9535 semantics, the evaluation machine, grammar, API machines)"},
    {"name": "harness", "path": "/verif/harness", "serves_properties": [], "kind_free_text": "Rust conformance harness (path dependency on /repo): replays TLC behaviours into the real code, records traces of the real code for TLC trace validation"},
]
NOTES = "Model-based verification with an explicit TLA+ specification; see DESIGN.md. Exit codes: 0 held / 1 VIOLATION / 2 tool error."
BASE_NOTE = ("Trusted: TLC; the TLA+ transcription of RFC 9535 (anchored by the RFC example tables as ASSUMEs); the harness' address-based node identity; "
             "bounded universes (spec/Universes.tla) - beyond them only seeded random traces validated against the same spec.")
CLAIMED = {
 "C01": {"text": "TLC checks the evaluation machine (invariants NodesAreLocations, SmallStepIsDenotation, PrefixDenotation, ChildDepth) over a bounded universe of documents x queries and every finished behaviour is replayed into the real code: the multiset of result addresses must equal the specification's nodelist and every result must be a node of the caller's document.",
         "note": BASE_NOTE, "technique": "TLC model checking of Evaluator.tla + bounded-exhaustive replay of TLC behaviours into the implementation"},
 "C02": {"text": "Same behaviours as C01 but the result SEQUENCE must equal the specification's (action properties InputMajorOrder, invariant PreOrder on the spec side). The implementation's selector-major deviation D1 is modelled as a named operator (DenoteSM) and is the only tolerated disagreement.",
         "note": BASE_NOTE, "technique": "TLC model checking of Evaluator.tla + replay; known finding D1 classified by the spec's DenoteSM"},
}
NOT_APPLICABLE = {}
