#!/usr/bin/env python3
"""Writes /verif/MANIFEST.json from the registry below (keeps it valid at all times)."""
import json, os, sys
V = os.path.abspath(os.path.join(os.path.dirname(os.path.abspath(__file__)), ".."))
sys.path.insert(0, os.path.join(V, "lib"))
import manifest_data as md
props = [json.loads(l)["id"] for l in open(os.path.join(V, "properties.jsonl"))]
checks = []
for pid in props:
    if pid not in md.CLAIMED:
        continue
    c = md.CLAIMED[pid]
    checks.append({
        "property_id": pid,
        "quick_cmd": f"./bin/check {pid} --tier quick",
        "thorough_cmd": f"./bin/check {pid} --tier thorough",
        "evidence_file": f"/verif/evidence/{pid}.json",
        "replay_cmd_template": f"./bin/check {pid} --replay {{path}}",
        "engine": "tlc+harness",
        "level_claimed": {"category": c.get("category", "model_checking"), "text": c["text"], "design_ref": c.get("design_ref", "DESIGN.md section 5")},
        "level_note": c["note"],
        "technique": c["technique"],
    })
m = {
    "version": 1,
    "setup_cmd": "./bin/setup",
    "hooks": md.HOOKS,
    "engines": md.ENGINES,
    "checks": checks,
    "notes": md.NOTES,
    "not_applicable": [{"property_id": p, "reason": md.NOT_APPLICABLE.get(p, "check not built yet in this round; see DESIGN.md section 10")} for p in props if p not in md.CLAIMED],
}
json.dump(m, open(os.path.join(V, "MANIFEST.json"), "w"), indent=1)
print("claimed:", [c["property_id"] for c in checks])
