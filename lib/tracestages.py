"""impl -> spec stages: recorded traces of the real code validated by TLC against trace specifications."""
import json, os, re, subprocess, concurrent.futures
from checklib import (WORK, harness_bin, ToolError, Evidence, validate_trace, run_worker, run_tlc, log,
                      sval_to_json, loc_disp, CLASSIFIERS)


def cps(s):
    return "".join(map(chr, s))


def _validate_chunks(ev, prop, tier, seed, module, chunks, base):
    paths = []
    for i, ch in enumerate(chunks):
        pth = f"{base}.{i}"
        with open(pth, "w") as f:
            f.writelines(ch)
        paths.append(pth)
    sub = [Evidence(prop, tier, seed) for _ in paths]
    with concurrent.futures.ThreadPoolExecutor(max_workers=8) as ex:
        results = list(ex.map(lambda i: validate_trace(sub[i], module, paths[i], f"{module}[{i}]"), range(len(paths))))
    for i in range(len(paths)):
        ev.stages += sub[i].stages
        ev.states += sub[i].states
        ev.transitions += sub[i].transitions
        ev.traces += sub[i].traces
        os.remove(paths[i])
    return results


def trace_eval_stage(ev, prop, aspects, tier, seed, n_quick=1500, n_thorough=20000):
    """Seeded random (document, query string) pairs run on the real code, recorded, and validated by TLC against
    Trace_Eval.tla (TLC parses the string, decides validity, computes the denotation and the Normalized Paths)."""
    n = n_thorough if tier == "thorough" else n_quick
    trace = os.path.join(WORK, f"{prop}-eval-{os.getpid()}.trace")
    with open(trace, "w") as f:
        p = subprocess.run([harness_bin("record"), "eval", "--seed", str(seed), "--n", str(n)], stdout=f,
                           stderr=subprocess.PIPE, text=True)
    if p.returncode != 0:
        raise ToolError("record eval failed: " + p.stderr[-500:])
    with open(trace) as f:
        lines = f.readlines()
    chunks = [lines[i:i + 2500] for i in range(0, len(lines), 2500)]
    results = _validate_chunks(ev, prop, tier, seed, "Trace_Eval", chunks, trace)
    out, valid_ok, invalid_ok = [], 0, 0
    for mism, summary in results:
        valid_ok += summary.get("valid_ok", 0)
        invalid_ok += summary.get("invalid_ok", 0)
        for m in mism:
            e, j = m["event"], m["judgement"]
            hit = [a for a in j["aspects"] if a in aspects]
            if not hit:
                continue
            j["aspect"] = hit[0]
            out.append({"kind": "mismatch", "check": j["aspect"], "repr": "Value", "id": e["id"], "q": cps(e["q"]),
                        "doc": sval_to_json(e["doc"]),
                        "what": "recorded evaluation is not a behaviour of the specification (" + j["aspect"] + ")",
                        "verdict": j["verdict"], "outcome": e["outcome"],
                        "expect": [loc_disp(l) for l in j["expect"]], "actual": [loc_disp(l) for l in e.get("res", [])],
                        "selector_major": j["sm"], "same_multiset": "nodes" not in j["aspects"],
                        "internal": [ie for ie in e.get("internal", []) if ie.get("ev") == j["aspect"]][:3],
                        "expected_paths": [cps(x) for x in j["expect_paths"]],
                        "actual_paths": [cps(x) for x in e.get("paths", [])],
                        "res_locs": e.get("res", []), "trace": True})
    # binding self-test: corrupt ONE recorded field of ONE event - the validator must reject exactly that event
    try:
        first = chunks[0]
        k = next(i for i, ln in enumerate(first) if '"outcome":"ok"' in ln and '"res":[[' in ln or '"res":[{' in ln)
        e = json.loads(first[k])
        if e.get("res"):
            e["res"] = e["res"][:-1]
            e["paths"] = e["paths"][:-1]
            corrupted = first[:k] + [json.dumps(e) + "\n"] + first[k + 1:]
            cp = trace + ".selftest"
            with open(cp, "w") as f:
                f.writelines(corrupted)
            sub = Evidence(prop, tier, seed)
            m2, s2 = validate_trace(sub, "Trace_Eval", cp, "Trace_Eval[selftest]")
            os.remove(cp)
            base_lines = {m["line"] for m in results[0][0]}
            new_lines = {m["line"] for m in m2} - base_lines
            ok = new_lines == {k + 1} or ((k + 1) in base_lines)
            ev.extra["binding_selftest"] = {"corrupted_event_line": k + 1, "what": "last node removed from the recorded result",
                                            "rejected_lines_added": sorted(new_lines), "passed": ok}
            if not ok:
                raise ToolError(f"binding self-test failed: corrupting event {k+1} was not noticed by Trace_Eval (new mismatch lines: {sorted(new_lines)})")
    except StopIteration:
        pass
    ev.evaluations += len(lines)
    ev.distinct_nontrivial += valid_ok
    ev.extra["trace_eval"] = {"events": len(lines), "valid_and_conforming": valid_ok,
                              "invalid_and_rejected": invalid_ok, "seed": seed}
    if len(ev.samples) < 8 and lines:
        e = json.loads(lines[len(lines) // 2])
        ev.samples.append({"recorded_event": {"q": cps(e["q"]), "doc": sval_to_json(e["doc"]), "outcome": e["outcome"],
                                              "res": [loc_disp(l) for l in e.get("res", [])],
                                              "paths": [cps(x) for x in e.get("paths", [])]}})
    os.remove(trace)
    return out, None


def trace_large_stage(ev, prop, aspects, tier, seed, part="docs"):
    """A few LARGE documents (arrays of 600/3000 elements, objects with 300/1500 members, strings and names of thousands
    of characters) with index / slice / filter / descendant queries around their ends: recorded and validated by Trace_Eval."""
    size = 6000 if tier == "thorough" else 1200
    if part.startswith("text"):
        size = 800                              # 6400 blanks per place, 25 000 - 50 000 per query
    trace = os.path.join(WORK, f"{prop}-large-{part}-{os.getpid()}.trace")
    with open(trace, "w") as f:
        p = subprocess.run([harness_bin("record"), "large", "--seed", str(seed), "--n", str(size), "--part", part], stdout=f, stderr=subprocess.PIPE, text=True)
    if p.returncode != 0:
        raise ToolError("record large failed: " + p.stderr[-500:])
    mism, summary = validate_trace(ev, "Trace_Eval", trace, f"Trace_Eval[large {part}]", timeout=2400)
    out = []
    for m in mism:
        e, j = m["event"], m["judgement"]
        hit = [a for a in j["aspects"] if a in aspects]
        if not hit:
            continue
        out.append({"kind": "mismatch", "check": hit[0], "repr": "Value", "id": e["id"], "q": cps(e["q"])[:300], "doc": f"<large document, size {size}>",
                    "what": "recorded evaluation on a large document is not a behaviour of the specification (" + hit[0] + ")",
                    "verdict": j["verdict"], "outcome": e["outcome"], "expect": [loc_disp(l) for l in j["expect"]][:20],
                    "actual": [loc_disp(l) for l in e.get("res", [])][:20], "selector_major": j["sm"], "same_multiset": "nodes" not in j["aspects"],
                    "expected_paths": [cps(x) for x in j["expect_paths"]][:20], "actual_paths": [cps(x) for x in e.get("paths", [])][:20], "trace": True})
    ev.evaluations += summary["events"]
    ev.distinct_nontrivial += summary.get("valid_ok", 0)
    ev.extra["trace_large_" + part] = {"events": summary["events"], "size": size, "valid_and_conforming": summary.get("valid_ok", 0)}
    os.remove(trace)
    return out, None


def TL(prop, aspects, part="docs"):
    return lambda ev, tier, seed: trace_large_stage(ev, prop, aspects, tier, seed, part)


def TE(prop, aspects):
    return lambda ev, tier, seed: trace_eval_stage(ev, prop, aspects, tier, seed)


def api_stage(ev, prop, tier, seed):
    """C08: the Api machine (TLC), its extreme inputs + a sample of grammar sentences + seeded random strings executed
    in isolated worker processes; the recorded call/return trace is validated against Trace_Api.tla."""
    cases = os.path.join(WORK, f"{prop}-api-{os.getpid()}.cases")
    r = run_tlc("Api", env={"VERIF_TIER": tier, "VERIF_SEED": str(seed)}, cases_path=cases, timeout=900, workers=4)
    ev.add_tlc("Api", r, "invariant AlwaysReturnable, liveness EveryCallReturns, ASSUME NestValid; exports the extreme inputs")
    rl = run_tlc("Evaluator", cfg="Evaluator_live", env={"VERIF_UNIVERSE": "C01", "VERIF_TIER": "quick", "VERIF_SEED": str(seed)}, timeout=900, workers=8)
    ev.add_tlc("Evaluator[C01] liveness", rl, "SPECIFICATION Spec with weak fairness; PROPERTY Terminates: every evaluation of a parsed query reaches phase done")
    gcases = os.path.join(WORK, f"{prop}-apig-{os.getpid()}.cases")
    rg = run_tlc("Grammar", env={"VERIF_GRAMMAR": "C07", "VERIF_TIER": "quick", "VERIF_SEED": str(seed)},
                 cases_path=gcases, timeout=1500)
    ev.add_tlc("Grammar[C07] (source of sentences for the worker)", rg, "")
    stride = 12 if tier == "thorough" else 60
    with open(cases, "a") as out, open(gcases) as f:
        for i, line in enumerate(f):
            if (i + seed) % stride == 0:
                c = json.loads(line)
                out.write(json.dumps({"id": ["grammar", i], "q": c["q"], "doc": None, "verdict": c["verdict"]}) + "\n")
    os.remove(gcases)
    n = 6000 if tier == "thorough" else 1200
    p = subprocess.run([harness_bin("record"), "strings", "--seed", str(seed), "--n", str(n)],
                       stdout=subprocess.PIPE, stderr=subprocess.PIPE, text=True)
    if p.returncode != 0:
        raise ToolError("record strings failed")
    with open(cases, "a") as out:
        for line in p.stdout.splitlines():
            c = json.loads(line)
            c["doc"] = None
            out.write(json.dumps(c) + "\n")
    trace = os.path.join(WORK, f"{prop}-api-{os.getpid()}.trace")
    n_events, crashes = run_worker(cases, trace, per_case_timeout=60 if tier == 'thorough' else 25, max_crashes=6 if tier != 'thorough' else 12)
    log(f"[worker] {n_events} events, {len(crashes)} crashes/timeouts")
    with open(trace) as f:
        lines = f.readlines()
    chunks, cur = [], []
    for ln in lines:
        if len(cur) >= 4000 and '"entry": "parse_json_path", "ev": "call"' in ln:
            chunks.append(cur)
            cur = []
        cur.append(ln)
    if cur:
        chunks.append(cur)
    results = _validate_chunks(ev, prop, tier, seed, "Trace_Api", chunks, trace)
    with open(cases) as f:
        by_id = {}
        for l in f:
            c = json.loads(l)
            by_id[json.dumps(c["id"])] = c
    out = []
    for mism, summary in results:
        for m in mism:
            e = m["event"]
            c = by_id.get(json.dumps(e["id"]), {})
            q = c.get("q", "")
            qs = q if isinstance(q, str) else cps(q)
            if e["ev"] == "crash":
                what = f"process died or hung inside {e.get('entry')} ({e.get('how')})"
            elif e.get("outcome") == "panic":
                what = f"panic inside {e.get('entry')}: {str(e.get('detail'))[:120]}"
            else:
                what = (f"{e.get('entry')} returned {e.get('outcome')} but the string is "
                        f"{m['expected_verdict']!r} for the specification")
            out.append({"kind": "mismatch", "check": "api", "repr": "Value", "id": e["id"],
                        "q": qs if len(qs) < 300 else qs[:120] + f"...({len(qs)} chars)",
                        "what": what, "event": {k: v for k, v in e.items() if k != "q"},
                        "verdict": m["expected_verdict"], "trace": True})
    ev.evaluations += len(by_id)
    ev.distinct_nontrivial += len(by_id)
    ev.extra["api"] = {"cases": len(by_id), "events": n_events, "crashes_or_timeouts": len(crashes)}
    keys = list(by_id)
    for k in keys[:: max(1, len(keys) // 4)][:4]:
        c = by_id[k]
        q = c["q"] if isinstance(c["q"], str) else cps(c["q"])
        ev.samples.append({"case": c["id"], "query": q[:120], "spec_verdict": c.get("verdict", "decided by Trace_Api")})
    os.remove(trace)
    return out, cases


def api_cases_stage(ev, prop, tier, seed):
    """The Api machine's extreme strings (integers at and beyond the I-JSON and i64 limits, truncated strings), each labelled
    by the recogniser, replayed as accept/reject cases (C07: an invalid one must be rejected, a valid one accepted)."""
    from checklib import run_replay, _acc
    allc = os.path.join(WORK, f"{prop}-apicases-{os.getpid()}.all")
    r = run_tlc("Api", env={"VERIF_TIER": tier, "VERIF_SEED": str(seed)}, cases_path=allc, timeout=900, workers=4)
    ev.add_tlc("Api (source of extreme strings)", r, "")
    cases = os.path.join(WORK, f"{prop}-apicases-{os.getpid()}.cases")
    n = 0
    with open(allc) as f, open(cases, "w") as out:
        for line in f:
            c = json.loads(line)
            if c.get("kind") == "extreme":
                out.write(json.dumps({"id": c["id"], "kind": "extreme", "q": c["q"], "verdict": c["verdict"], "docs": []}) + "\n")
                n += 1
    os.remove(allc)
    if n == 0:
        raise ToolError("Api exported no extreme strings")
    mism, summary = run_replay("replay", ["--checks", "reject,accept"], cases)
    ev.traces += summary["cases"]
    ev.evaluations += summary["cases"]
    ev.distinct_nontrivial += summary["distinct"]
    _acc(ev, summary)
    return mism, cases


# ----------------------------------------------------------------------------- classifiers
def _cls_deep_nesting_overflow(m, params):
    # D15: the recursive-descent parser overflows the stack on filter/parenthesis nesting of several thousand levels
    e = m.get("event") or {}
    i = m.get("id")
    return (m.get("check") == "api" and e.get("ev") == "crash" and isinstance(i, list) and len(i) == 3
            and i[0] == "nest" and i[1] in ("filter", "paren", "notparen", "fnfilter", "cmpfilter", "gefilter", "fnarg") and isinstance(i[2], int) and i[2] >= 2048
            and "exit status -6" in str(e.get("how")))


_DQ_STEP = re.compile(r"""\['"([^'"\\]*)"'\]""")


def _cls_np_double_quoted_route(m, params):
    # D11c (pinned by query::tests::single_quote): a node reached through a DOUBLE-quoted name selector is reported
    # with the quotes inside the path: ['"name"'] instead of ['name']; nothing else may differ
    if m.get("check") != "paths" or not m.get("trace") or '"' not in m.get("q", ""):
        return False
    a, x = m.get("actual_paths"), m.get("expected_paths")
    if a is None or x is None or len(a) != len(x):
        return False
    return all(_DQ_STEP.sub(lambda mo: "['" + mo.group(1) + "']", ap) == xp for ap, xp in zip(a, x))


def _has_undecoded_escape(q):
    """Does the query text contain an escape sequence the implementation does not decode?  In NAME selectors it rewrites
    \\\\ and \\/ itself (normalize_json_key), so those two alone do not count; every other escape (\\' \\" \\b \\f \\n \\r \\t \\uXXXX) does."""
    i = 0
    while i < len(q):
        if q[i] == "\\" and i + 1 < len(q):
            if q[i + 1] not in "\\/":
                return True
            i += 2
        else:
            i += 1
    return False


def _cls_escape_not_decoded(m, params):
    # D10 (pinned by query::tests::tab_key / carr_return): escape sequences in name selectors and string literals are
    # never decoded, so a query that spells a name or literal with an escape looks for the raw text instead
    q = m.get("q", "")
    if m.get("check") in ("nodes", "order", "paths", "seg", "entry", "j", "prog") and _has_undecoded_escape(q):
        return True
    # ... and a string literal with ANY escape (also \\\\) given as the subject of match / search is handed over raw
    return m.get("check") in ("nodes", "order", "j") and re.search(r"(match|search)\(\s*(['\"])(?:(?!\2)[^\\])*\\", q) is not None


CLASSIFIERS["deep_nesting_overflow"] = _cls_deep_nesting_overflow
CLASSIFIERS["np_double_quoted_route"] = _cls_np_double_quoted_route
CLASSIFIERS["escape_not_decoded"] = _cls_escape_not_decoded
