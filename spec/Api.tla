-------------------------------- MODULE Api --------------------------------
(***************************************************************************)
(* C08: the call/return discipline of the public entry points.             *)
(*   Call(c, e)   a thread hands query string c to entry point e           *)
(*   ReturnOk     enabled iff the string is a valid query (or one the      *)
(*                properties do not speak about)                           *)
(*   ReturnErr    enabled iff e takes a STRING and the string is invalid   *)
(*                (or unscoped); never for js_path_process on a parsed     *)
(*                query: evaluating a parsed query always succeeds         *)
(*   ReturnRef    reference / reference_mut take ANY string as a path and   *)
(*                answer Some or None (never Err, never anything else)      *)
(* There is NO action for panic, abort or timeout: a recorded trace that   *)
(* contains such an event, or a call without a return, is not a behaviour  *)
(* of this specification (Trace_Api.tla).                                  *)
(* This module also GENERATES the extreme inputs C08 names (deep nesting,   *)
(* extreme integers, i64-limit literals) and exports them for the worker.  *)
(***************************************************************************)
EXTENDS JPParse, TLC, Json, IOUtils

Tier == IF "VERIF_TIER" \in DOMAIN IOEnv THEN IOEnv.VERIF_TIER ELSE "quick"
Thorough == Tier = "thorough"

RECURSIVE Rep(_, _)
Rep(s, n) == IF n = 0 THEN <<>> ELSE s \o Rep(s, n - 1)
S2(str) == str
\* kinds of nesting, each a VALID query of nesting depth n
NestQ(kind, n) ==
  CASE kind = "paren"   -> <<36, 91, 63>> \o Rep(<<40>>, n) \o <<64, 46, 97>> \o Rep(<<41>>, n) \o <<93>>                 \* $[?((((@.a))))]
    [] kind = "notparen" -> <<36, 91, 63>> \o Rep(<<33, 40>>, n) \o <<64, 46, 97>> \o Rep(<<41>>, n) \o <<93>>            \* $[?!(!(!(@.a)))]
    [] kind = "filter"  -> <<36>> \o Rep(<<91, 63, 64>>, n) \o <<46, 97>> \o Rep(<<93>>, n)                              \* $[?@[?@[?@.a]]]
    [] kind = "index"   -> <<36>> \o Rep(<<91, 48, 93>>, n)                                                             \* $[0][0][0]
    [] kind = "name"    -> <<36>> \o Rep(<<46, 97>>, n)                                                                 \* $.a.a.a
    [] kind = "desc"    -> <<36>> \o Rep(<<46, 46, 97>>, n)                                                             \* $..a..a
    [] kind = "fn"      -> <<36, 91, 63>> \o Rep(<<108, 101, 110, 103, 116, 104, 40, 118, 97, 108, 117, 101, 40, 64>>, 1)
                           \o Rep(<<46, 97>>, n) \o <<41, 41, 62, 48, 93>>                                              \* $[?length(value(@.a.a.a))>0]
    [] kind = "and"     -> <<36, 91, 63, 64, 46, 97>> \o Rep(<<38, 38, 64, 46, 97>>, n) \o <<93>>                         \* $[?@.a&&@.a&&...]
    [] kind = "union"   -> <<36, 91, 48>> \o Rep(<<44, 48>>, n) \o <<93>>                                               \* $[0,0,0,...]
    \* a function TEST whose argument contains a filter whose test is again such a function: $[?match(value(@[?match(value(@.b), 'x')].b), 'x')]
    [] kind = "fnfilter" -> <<36, 91, 63, 109, 97, 116, 99, 104, 40, 118, 97, 108, 117, 101, 40>> \o Rep(<<64, 91, 63, 109, 97, 116, 99, 104, 40, 118, 97, 108, 117, 101, 40>>, n)
                            \o <<64, 46, 98>> \o Rep(<<41, 44, 32, 39, 120, 39, 41, 93, 46, 98>>, n) \o <<41, 44, 32, 39, 120, 39, 41, 93>>
    \* NOT a query (a comparison where a value is expected), nested: $[?length(length(@.a) == 1) == 1]  - must be refused, and quickly
    [] kind = "fnarg" -> <<36, 91, 63>> \o Rep(<<108, 101, 110, 103, 116, 104, 40>>, n + 1) \o <<64, 46, 97>> \o Rep(<<41, 32, 61, 61, 32, 49>>, n + 1) \o <<93>>
    \* comparisons with >= whose operands are equal at every level, over a document nested as deep: $[?count(@[?count(@[*]) >= 1]) >= 1]
    [] kind = "gefilter" -> <<36, 91, 63, 99, 111, 117, 110, 116, 40>> \o Rep(<<64, 91, 63, 99, 111, 117, 110, 116, 40>>, Max2(n - 3, 0)) \o <<64, 91, 42, 93>> \o Rep(<<41, 32, 62, 61, 32, 49, 93>>, Max2(n - 3, 0)) \o <<41, 32, 62, 61, 32, 49, 93>>
    \* the same with comparisons: $[?count(@[?count(@.b) > 0]) > 0]
    [] kind = "cmpfilter" -> <<36, 91, 63, 99, 111, 117, 110, 116, 40>> \o Rep(<<64, 91, 63, 99, 111, 117, 110, 116, 40>>, n) \o <<64, 46, 98>> \o Rep(<<41, 32, 62, 32, 48, 93>>, n) \o <<41, 32, 62, 32, 48, 93>>
NestKinds == <<"paren", "notparen", "filter", "index", "name", "desc", "fn", "and", "union", "fnfilter", "cmpfilter", "gefilter", "fnarg">>
InvalidKinds == {"fnarg"}
KindVerdict(kind) == IF kind \in InvalidKinds THEN "invalid" ELSE "valid"
Depths == IF Thorough THEN <<8, 64, 512, 4096>> ELSE <<8, 64, 512>>

\* extreme integers and literals (as strings: TLC integers are 32-bit)
D(str) == str
MaxI == BigDigits(0)             \* 9007199254740991
I64Max == <<57,50,50,51,51,55,50,48,51,54,56,53,52,55,55,53,56,48,55>>      \* 9223372036854775807
I64MaxP1 == <<57,50,50,51,51,55,50,48,51,54,56,53,52,55,55,53,56,48,56>>    \* 9223372036854775808
U64Max == <<49,56,52,52,54,55,52,52,48,55,51,55,48,57,53,53,49,54,49,53>>   \* 18446744073709551615
U64MaxP1 == <<49,56,52,52,54,55,52,52,48,55,51,55,48,57,53,53,49,54,49,54>> \* 18446744073709551616
Neg(s) == <<45>> \o s
Br(s) == <<36, 91>> \o s \o <<93>>
CmpLit(s) == <<36, 91, 63, 64, 46, 97, 61, 61>> \o s \o <<93>>                 \* $[?@.a==<lit>]
ExtremeQ == <<
  Br(MaxI), Br(Neg(MaxI)), Br(BigDigits(1)), Br(Neg(BigDigits(1))), Br(I64Max), Br(Neg(I64MaxP1)), Br(I64MaxP1),
  Br(MaxI \o <<58>> \o Neg(MaxI) \o <<58>> \o Neg(MaxI)), Br(Neg(MaxI) \o <<58>> \o MaxI \o <<58>> \o MaxI),
  Br(<<58, 58>> \o MaxI), Br(<<58, 58>> \o Neg(MaxI)), Br(Neg(MaxI) \o <<58>>), Br(<<58>> \o Neg(MaxI)), Br(<<48, 58>> \o MaxI \o <<58>> \o <<49>>),
  Br(MaxI \o <<58, 58, 45, 49>>), Br(<<58>> \o MaxI \o <<58, 45, 49>>), Br(<<49, 58, 50, 58, 48>>), Br(BigDigits(1) \o <<58>>), Br(<<58, 58>> \o BigDigits(1)),
  CmpLit(MaxI), CmpLit(Neg(MaxI)), CmpLit(I64Max), CmpLit(Neg(I64MaxP1)), CmpLit(I64MaxP1), CmpLit(I64MaxP1 \o <<48, 48, 48>>),
  CmpLit(<<49, 101, 51, 48, 56>>), CmpLit(<<49, 101, 52, 48, 48>>), CmpLit(<<49, 101, 45, 52, 48, 48>>), CmpLit(<<45, 48>>), CmpLit(<<45, 48, 46, 48>>),
  CmpLit(<<49, 46>> \o Rep(<<48>>, 40) \o <<49>>), CmpLit(<<49, 101, 43, 57, 57, 57, 57, 57, 57, 57, 57, 57, 57>>),
  <<36, 46, 46, 91>> \o MaxI \o <<93>>, <<36, 91, 63, 64, 91>> \o Neg(MaxI) \o <<93, 61, 61, 49, 93>>,
  <<36, 91, 63, 64, 91>> \o BigDigits(1) \o <<93, 61, 61, 49, 93>>, <<36, 91, 63, 64, 91>> \o Neg(I64MaxP1) \o <<93, 61, 61, 49, 93>>,      \* $[?@[2^53]==1]  $[?@[-2^63]==1]
  <<36, 91, 63, 36, 91>> \o I64Max \o <<93, 61, 61, 49, 93>>, <<36, 91, 63, 108, 101, 110, 103, 116, 104, 40, 64, 91>> \o Neg(I64MaxP1) \o <<93, 41, 62, 48, 93>>,
  <<36, 91, 63, 99, 111, 117, 110, 116, 40, 64, 91>> \o Neg(I64MaxP1) \o <<58, 93, 41, 62, 48, 93>>,
  <<36, 91, 63, 108, 101, 110, 103, 116, 104, 40, 64, 41, 62>> \o MaxI \o <<93>>,
  <<36>>, <<>>, <<36, 36>>, <<64>>, <<36, 46>>, <<36, 46, 46>>, <<36, 91>>, <<36, 91, 93>>, <<36, 91, 63>>, <<36, 91, 63, 93>>, <<36, 91, 39>>, <<36, 91, 39, 92>>,
  <<36, 91, 39, 92, 117>>, <<36, 91, 39, 92, 117, 68, 56, 48, 48, 39, 93>>, <<36, 91, 39, 92, 117, 68, 56, 48, 48, 92, 117, 39, 93>>, <<36, 91, 63, 64, 61, 61>>,
  <<36, 91, 63, 40>>, <<36, 91, 63, 33>>, <<36, 91, 63, 108, 101, 110, 103, 116, 104, 40>>, <<36, 91, 58, 58, 58, 93>>, <<36, 91, 45, 93>>, <<36, 46, 46, 46, 97>>,
  <<36, 91, 63, 64, 46, 97, 61, 61, 39, 92, 117, 68, 56, 51, 68, 92, 117, 68, 69, 48, 48, 39, 93>>,
  \* integers beyond every machine width, as indexes and slice parts (also what `reference` is handed as a path)
  Br(U64Max), Br(U64MaxP1), Br(Neg(U64MaxP1)), Br(Rep(<<57>>, 40)), Br(Neg(Rep(<<57>>, 40))), Br(<<58>> \o U64MaxP1), Br(U64MaxP1 \o <<58>>), Br(<<58, 58>> \o U64MaxP1),
  <<36, 91, 39, 97, 39, 93, 91>> \o U64MaxP1 \o <<93>>, <<36, 91, 48, 93, 91>> \o I64MaxP1 \o <<93>>, Br(<<45, 48>>), Br(<<48, 49>>), Br(<<49, 46, 48>>), Br(<<49, 101, 50>>),
  \* near-valid queries LONGER than a typical error-message excerpt, with multi-byte characters at every offset around byte 64
  <<36, 46, 32, 233, 233, 233, 233, 233, 233, 233, 233, 233, 233, 233, 233, 233, 233, 233, 233, 233, 233, 233, 233, 233, 233, 233, 233, 233, 233, 233, 233, 233, 233, 233, 233, 233, 233, 233, 233, 233, 233, 233, 233>>,
  <<36, 46, 32, 97, 233, 233, 233, 233, 233, 233, 233, 233, 233, 233, 233, 233, 233, 233, 233, 233, 233, 233, 233, 233, 233, 233, 233, 233, 233, 233, 233, 233, 233, 233, 233, 233, 233, 233, 233, 233, 233, 233, 233, 233>>,
  <<36, 46, 46, 32, 233, 233, 233, 233, 233, 233, 233, 233, 233, 233, 233, 233, 233, 233, 233, 233, 233, 233, 233, 233, 233, 233, 233, 233, 233, 233, 233, 233, 233, 233, 233, 233, 233, 233, 233, 233, 233, 233, 233, 233>>,
  <<36, 46, 46, 32, 97, 233, 233, 233, 233, 233, 233, 233, 233, 233, 233, 233, 233, 233, 233, 233, 233, 233, 233, 233, 233, 233, 233, 233, 233, 233, 233, 233, 233, 233, 233, 233, 233, 233, 233, 233, 233, 233, 233, 233, 233>>,
  <<36, 46, 97, 46, 46, 32, 98, 98, 98, 98, 98, 98, 98, 98, 98, 98, 98, 98, 98, 98, 98, 98, 98, 98, 98, 98, 98, 98, 98, 98, 98, 98, 98, 98, 98, 98, 98, 98, 98, 98, 98, 98, 98, 98, 98, 98, 98, 98, 98, 98, 98, 98, 98, 98, 98, 98, 98, 98, 98, 98, 98, 98, 98, 233, 233, 233, 233, 233, 233, 233, 233, 233, 233>>,
  <<36, 91, 63, 108, 101, 110, 103, 116, 104, 32, 40, 64, 46, 233, 233, 233, 233, 233, 233, 233, 233, 233, 233, 233, 233, 233, 233, 233, 233, 233, 233, 233, 233, 233, 233, 233, 233, 233, 233, 233, 233, 233, 233, 233, 233, 233, 233, 233, 233, 233, 233, 233, 233, 41, 62, 49, 93>>,
  <<36, 91, 63, 108, 101, 110, 103, 116, 104, 32, 40, 64, 46, 97, 233, 233, 233, 233, 233, 233, 233, 233, 233, 233, 233, 233, 233, 233, 233, 233, 233, 233, 233, 233, 233, 233, 233, 233, 233, 233, 233, 233, 233, 233, 233, 233, 233, 233, 233, 233, 233, 233, 233, 233, 41, 62, 49, 93>>,
  <<36, 46, 98, 46, 32, 120, 120, 120, 120, 120, 120, 120, 120, 120, 120, 120, 120, 120, 120, 120, 120, 120, 120, 120, 120, 120, 120, 120, 120, 120, 120, 120, 120, 120, 120, 120, 120, 120, 120, 120, 120, 120, 120, 120, 120, 120, 120, 120, 120, 120, 120, 120, 120, 120, 120, 120, 120, 120, 120, 120, 120, 120, 120, 128512, 128512, 128512, 128512, 128512, 128512, 128512, 128512>>,
  <<36, 46, 98, 46, 32, 120, 120, 120, 120, 120, 120, 120, 120, 120, 120, 120, 120, 120, 120, 120, 120, 120, 120, 120, 120, 120, 120, 120, 120, 120, 120, 120, 120, 120, 120, 120, 120, 120, 120, 120, 120, 120, 120, 120, 120, 120, 120, 120, 120, 120, 120, 120, 120, 120, 120, 120, 120, 120, 120, 120, 120, 120, 120, 120, 128512, 128512, 128512, 128512, 128512, 128512, 128512, 128512>>,
  <<36, 46, 98, 46, 32, 120, 120, 120, 120, 120, 120, 120, 120, 120, 120, 120, 120, 120, 120, 120, 120, 120, 120, 120, 120, 120, 120, 120, 120, 120, 120, 120, 120, 120, 120, 120, 120, 120, 120, 120, 120, 120, 120, 120, 120, 120, 120, 120, 120, 120, 120, 120, 120, 120, 120, 120, 120, 120, 120, 120, 120, 120, 120, 120, 120, 128512, 128512, 128512, 128512, 128512, 128512, 128512, 128512>>,
  <<36, 46, 98, 46, 32, 120, 120, 120, 120, 120, 120, 120, 120, 120, 120, 120, 120, 120, 120, 120, 120, 120, 120, 120, 120, 120, 120, 120, 120, 120, 120, 120, 120, 120, 120, 120, 120, 120, 120, 120, 120, 120, 120, 120, 120, 120, 120, 120, 120, 120, 120, 120, 120, 120, 120, 120, 120, 120, 120, 120, 120, 120, 120, 120, 120, 120, 128512, 128512, 128512, 128512, 128512, 128512, 128512, 128512>>,
  <<36, 91, 63, 99, 111, 117, 110, 116, 32, 40, 64, 46, 121, 121, 121, 121, 121, 121, 121, 121, 121, 121, 121, 121, 121, 121, 121, 121, 121, 121, 121, 121, 121, 121, 121, 121, 121, 121, 121, 121, 121, 121, 121, 121, 121, 121, 121, 121, 121, 121, 121, 121, 121, 121, 121, 121, 121, 121, 121, 121, 121, 121, 8364, 8364, 8364, 8364, 8364, 8364, 8364, 8364, 8364, 8364, 41, 62, 49, 93>>,
  <<36, 91, 63, 99, 111, 117, 110, 116, 32, 40, 64, 46, 121, 121, 121, 121, 121, 121, 121, 121, 121, 121, 121, 121, 121, 121, 121, 121, 121, 121, 121, 121, 121, 121, 121, 121, 121, 121, 121, 121, 121, 121, 121, 121, 121, 121, 121, 121, 121, 121, 121, 121, 121, 121, 121, 121, 121, 121, 121, 121, 121, 121, 121, 8364, 8364, 8364, 8364, 8364, 8364, 8364, 8364, 8364, 8364, 41, 62, 49, 93>>,
  <<36, 91, 63, 99, 111, 117, 110, 116, 32, 40, 64, 46, 121, 121, 121, 121, 121, 121, 121, 121, 121, 121, 121, 121, 121, 121, 121, 121, 121, 121, 121, 121, 121, 121, 121, 121, 121, 121, 121, 121, 121, 121, 121, 121, 121, 121, 121, 121, 121, 121, 121, 121, 121, 121, 121, 121, 121, 121, 121, 121, 121, 121, 121, 121, 8364, 8364, 8364, 8364, 8364, 8364, 8364, 8364, 8364, 8364, 41, 62, 49, 93>>,
  \* a byte order mark (or another invisible character) is not blank space and not part of a query
  <<65279, 36, 46, 97>>, <<65279, 32, 36, 46, 97>>, <<36, 46, 97, 65279>>, <<8203, 36>>, <<65534, 36, 46, 97>>, <<36, 65279, 46, 97>>,
  \* surrogate escapes in every hex-digit case: lone ones are invalid, well-formed pairs are valid
  <<36, 91, 39, 92, 117, 100, 99, 48, 48, 39, 93>>, <<36, 91, 39, 92, 117, 68, 99, 48, 48, 39, 93>>, <<36, 91, 39, 92, 117, 100, 98, 102, 102, 39, 93>>, <<36, 91, 39, 92, 117, 100, 66, 102, 102, 92, 117, 100, 67, 48, 48, 39, 93>>, <<36, 91, 63, 64, 46, 97, 61, 61, 39, 92, 117, 100, 101, 97, 100, 39, 93>>, <<36, 91, 39, 92, 117, 100, 56, 51, 100, 92, 117, 100, 101, 48, 48, 39, 93>>, <<36, 91, 39, 92, 117, 100, 98, 102, 102, 92, 117, 100, 102, 102, 102, 39, 93>>, <<36, 91, 39, 92, 117, 100, 102, 102, 102, 92, 117, 100, 56, 48, 48, 39, 93>>, <<36, 91, 39, 92, 117, 100, 97, 48, 48, 120, 39, 93>>, <<36, 91, 39, 92, 117, 68, 56, 51, 100, 39, 93>> >>
ExtremeDocs == <<"scalar", "empty_arr", "empty_obj", "arr3", "null">>

\* ---- the machine: calls in any order, each followed by exactly one return -----------------
Cases == [k \in 1..Len(NestKinds) |-> NestQ(NestKinds[k], 8)] \o ExtremeQ
Entries == <<"parse_json_path", "query", "query_with_path", "query_only_path", "js_path_process", "reference", "reference_mut">>
RefEntries == {"reference", "reference_mut"}
VARIABLES pc, cur, ent, calls
vars == <<pc, cur, ent, calls>>
MaxCalls == 2
Init == pc = "idle" /\ cur = 0 /\ ent = "" /\ calls = 0
Call(c, e) == /\ pc = "idle" /\ calls < MaxCalls
              /\ (e = "js_path_process" => Verdict(Cases[c]) = "valid")     \* only a parsed query can be processed
              /\ pc' = "inCall" /\ cur' = c /\ ent' = e /\ calls' = calls + 1
OkAllowed(q, e)  == e \notin RefEntries /\ Verdict(q) \in {"valid", "unscoped"}
ErrAllowed(q, e) == e \notin RefEntries /\ e # "js_path_process" /\ Verdict(q) \in {"invalid", "unscoped"}
RefAllowed(q, e) == e \in RefEntries
ReturnOk  == pc = "inCall" /\ OkAllowed(Cases[cur], ent) /\ pc' = "idle" /\ UNCHANGED <<cur, ent, calls>>
ReturnErr == pc = "inCall" /\ ErrAllowed(Cases[cur], ent) /\ pc' = "idle" /\ UNCHANGED <<cur, ent, calls>>
\* reference / reference_mut answer Some(node) or None for every string whatsoever
ReturnRef == pc = "inCall" /\ RefAllowed(Cases[cur], ent) /\ pc' = "idle" /\ UNCHANGED <<cur, ent, calls>>
Next == (\E c \in 1..Len(Cases) : \E e \in 1..Len(Entries) : Call(c, Entries[e])) \/ ReturnOk \/ ReturnErr \/ ReturnRef
Spec == Init /\ [][Next]_vars /\ WF_vars(ReturnOk \/ ReturnErr \/ ReturnRef)

\* every call can return, and it returns (no deadlock in a call; liveness under fairness)
AlwaysReturnable == pc = "inCall" => (OkAllowed(Cases[cur], ent) \/ ErrAllowed(Cases[cur], ent) \/ RefAllowed(Cases[cur], ent))
EveryCallReturns == [](pc = "inCall" => <>(pc = "idle"))
\* the nesting generators produce valid queries (checked for the depths TLC can parse quickly)
ASSUME NestValid == \A k \in 1..Len(NestKinds) : \A n \in {1, 2, 8, 33} : Verdict(NestQ(NestKinds[k], n)) = KindVerdict(NestKinds[k])

\* ---- export of the extreme inputs (once, from the initial state) ---------------------------
ExportCases ==
  /\ \A k \in 1..Len(NestKinds) : \A d \in 1..Len(Depths) :
        PrintT(<<"REPLAY", ToJson([id |-> <<"nest", NestKinds[k], Depths[d]>>, q |-> NestQ(NestKinds[k], Depths[d]),
                                   doc |-> [nest |-> Depths[d], kind |-> IF k % 2 = 0 THEN "arr" ELSE "obj"], verdict |-> KindVerdict(NestKinds[k])])>>)
  /\ \A k \in 1..Len(ExtremeQ) :
        PrintT(<<"REPLAY", ToJson([id |-> <<"extreme", "", k>>, kind |-> "extreme", q |-> ExtremeQ[k], doc |-> [nest |-> (k % 4), kind |-> "arr"], verdict |-> Verdict(ExtremeQ[k])])>>)
  /\ PrintT(<<"REPLAY", ToJson([id |-> <<"flat", "index", 60000>>, q |-> <<36, 91, 42, 93>> \o [i \in 1..180000 |-> CASE i % 3 = 1 -> 91 [] i % 3 = 2 -> 48 [] OTHER -> 93],
                                 doc |-> [nest |-> 1, kind |-> "arr"], verdict |-> "valid"])>>)      \* $[*][0][0]...[0]  (60 000 segments)
  /\ \A n \in {16, 24, 32, 48, 64} :      \* two EQUAL deep documents compared with == (cost must not explode with the depth)
        /\ PrintT(<<"REPLAY", ToJson([id |-> <<"deeppair", "obj", n>>, q |-> <<36, 91, 63, 64, 61, 61, 36, 91, 48, 93, 93>>, doc |-> [nest |-> n, kind |-> "pairobj"], verdict |-> "valid"])>>)
        /\ PrintT(<<"REPLAY", ToJson([id |-> <<"deeppair", "arr", n>>, q |-> <<36, 91, 63, 64, 60, 61, 36, 91, 49, 93, 93>>, doc |-> [nest |-> n, kind |-> "pairarr"], verdict |-> "valid"])>>)
  /\ \A d \in 1..Len(Depths) :      \* shallow queries over deep documents
        /\ PrintT(<<"REPLAY", ToJson([id |-> <<"deepdoc", "desc", Depths[d]>>, q |-> <<36, 46, 46, 42>>, doc |-> [nest |-> Depths[d], kind |-> "arr"], verdict |-> "valid"])>>)
        /\ Depths[d] > 512 \/ PrintT(<<"REPLAY", ToJson([id |-> <<"deepdoc", "descfilter", Depths[d]>>, q |-> <<36, 46, 46, 91, 63, 64, 46, 46, 97, 93>>, doc |-> [nest |-> Depths[d], kind |-> "obj"], verdict |-> "valid"])>>)
HostileNames == << <<92, 39>>, <<39>>, <<92>>, <<92, 92, 39>>, <<39, 39>>, <<34, 92>>, <<233, 128512>>, <<128512, 233, 128512>>, <<10>>, <<0>>, <<127>>, <<39, 92, 39, 92>> >>
HostileQ == << <<36, 46, 42>>, <<36, 46, 46, 42>>, <<36, 91, 63, 64, 61, 61, 49, 93>>, <<36, 46, 46, 91, 48, 93>>, <<36, 46, 46, 91, 63, 64, 93>> >>
ExportHostile ==
  \A n \in 1..Len(HostileNames) : \A k \in 1..Len(HostileQ) :
     PrintT(<<"REPLAY", ToJson([id |-> <<"hostile", "", n * 10 + k>>, q |-> HostileQ[k], verdict |-> "valid",
                                doc |-> JObj(<<HostileNames[n]>>, <<JArr(<<JInt(1), JObj(<<HostileNames[n]>>, <<JArr(<<JInt(1)>>)>>)>>)>>)])>>)
\* many DISTINCT regular expressions evaluated one after the other in the same process (state kept between calls)
ExportPatterns ==
  \A k \in 1..(IF Thorough THEN 600 ELSE 150) :
     PrintT(<<"REPLAY", ToJson([id |-> <<"pattern", "", k>>, verdict |-> "valid", doc |-> JArr(<<JStr(<<112, 49>>), JStr(<<97>>), JInt(1)>>),
                                q |-> <<36, 91, 63>> \o (IF k % 2 = 0 THEN FnNameCP("match") ELSE FnNameCP("search")) \o <<40, 64, 44, 39, 112>> \o DecDigits(k) \o <<46, 42, 39, 41, 93>>])>>)
Export == (pc = "idle" /\ calls = 0) => (ExportCases /\ ExportHostile /\ ExportPatterns)
=============================================================================
