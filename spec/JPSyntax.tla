----------------------------- MODULE JPSyntax -----------------------------
(***************************************************************************)
(* RFC 9535 abstract syntax (section 2) as homogeneous records, the        *)
(* well-typedness rules of section 2.4.3, and the CANONICAL concrete       *)
(* spelling of a query as a sequence of code points (Render ops).  The      *)
(* non-deterministic spellings live in Grammar.tla; Render is the one      *)
(* spelling that machine must also be able to derive.                      *)
(***************************************************************************)
EXTENDS JsonModel

(* ---------- integer abstraction (DESIGN 3.1) ---------------------------- *)
ABSENT == 2000000000               \* "bound not written" in a slice
BIG    == 1073741824               \* stands for 2^53-1;  BIG+d stands for 2^53-1+d (|d| <= 2)
IsBig(i) == Abs(i) > 500000000 /\ i # ABSENT

(* ---------- records ------------------------------------------------------ *)
\* selector
SelBlank == [k |-> "wild", n |-> <<>>, i |-> 0, st |-> ABSENT, en |-> ABSENT, sp |-> ABSENT, f |-> <<>>]
SName(n)          == [SelBlank EXCEPT !.k = "name", !.n = n]
SWild             == SelBlank
SIndex(i)         == [SelBlank EXCEPT !.k = "index", !.i = i]
SSlice(st, en, sp) == [SelBlank EXCEPT !.k = "slice", !.st = st, !.en = en, !.sp = sp]
SFilter(lx)       == [SelBlank EXCEPT !.k = "filter", !.f = <<lx>>]

\* segment
Seg(desc, sels) == [desc |-> desc, sels |-> sels]
Child(sels) == Seg(FALSE, sels)
Desc(sels)  == Seg(TRUE, sels)

\* expression: literal / query (filter-query or singular query) / function call / logical argument
ExprBlank == [k |-> "lit", v |-> Blank, abs |-> FALSE, segs |-> <<>>, fname |-> "", args |-> <<>>, lx |-> <<>>]
ELit(v)          == [ExprBlank EXCEPT !.k = "lit", !.v = v]
EQuery(abs, segs) == [ExprBlank EXCEPT !.k = "q", !.abs = abs, !.segs = segs]
ERel(segs)       == EQuery(FALSE, segs)
EAbs(segs)       == EQuery(TRUE, segs)
EFn(name, args)  == [ExprBlank EXCEPT !.k = "fn", !.fname = name, !.args = args]
ELx(lx)          == [ExprBlank EXCEPT !.k = "lx", !.lx = <<lx>>]

\* logical expression
LxBlank == [k |-> "test", xs |-> <<>>, neg |-> FALSE, op |-> "", es |-> <<>>]
LOr(xs)        == [LxBlank EXCEPT !.k = "or", !.xs = xs]
LAnd(xs)       == [LxBlank EXCEPT !.k = "and", !.xs = xs]
LParen(neg, x) == [LxBlank EXCEPT !.k = "paren", !.neg = neg, !.xs = <<x>>]
LCmp(op, l, r) == [LxBlank EXCEPT !.k = "cmp", !.op = op, !.es = <<l, r>>]
LTest(neg, e)  == [LxBlank EXCEPT !.k = "test", !.neg = neg, !.es = <<e>>]

CmpOps == <<"==", "!=", "<", "<=", ">", ">=">>

\* single-step helpers
N1(n) == Child(<<SName(n)>>)
I1(i) == Child(<<SIndex(i)>>)

(* ---------- singular queries and typing (2.4.3) -------------------------- *)
IsSingularSeg(sg) == ~sg.desc /\ Len(sg.sels) = 1 /\ sg.sels[1].k \in {"name", "index"}
IsSingular(e) == e.k = "q" /\ \A i \in 1..Len(e.segs) : IsSingularSeg(e.segs[i])

StdFns == {"length", "count", "value", "match", "search"}
ExtFns == {"in", "nin", "none_of", "any_of", "subset_of"}     \* documented extension hook (C14)
FnResult(name) == CASE name \in {"length", "count", "value"} -> "value"
                    [] OTHER -> "logical"
FnParams(name) == CASE name = "length" -> <<"value">>
                    [] name \in {"count", "value"} -> <<"nodes">>
                    [] name \in {"match", "search"} -> <<"value", "value">>
                    [] OTHER -> <<"any", "any">>

RECURSIVE WTExpr(_, _), WTLx(_), WTSegs(_)
\* e is a well-typed argument for a parameter of type ty ("value"/"nodes"/"logical"/"any")
WTExpr(e, ty) ==
  CASE e.k = "lit" -> ty \in {"value", "any"}
    [] e.k = "q"   -> WTSegs(e.segs) /\ (ty = "value" => IsSingular(e))
    [] e.k = "lx"  -> ty \in {"logical", "any"} /\ WTLx(e.lx[1])
    [] e.k = "fn"  ->
         /\ e.fname \in StdFns \cup ExtFns
         /\ Len(e.args) = Len(FnParams(e.fname))
         /\ \A i \in 1..Len(e.args) : WTExpr(e.args[i], FnParams(e.fname)[i])
         /\ CASE ty = "value"   -> FnResult(e.fname) = "value"
              [] ty = "logical" -> FnResult(e.fname) = "logical"
              [] ty = "nodes"   -> FALSE
              [] OTHER -> TRUE
WTLx(x) ==
  CASE x.k \in {"or", "and"} -> Len(x.xs) >= 2 /\ \A i \in 1..Len(x.xs) : WTLx(x.xs[i])
    [] x.k = "paren" -> WTLx(x.xs[1])
    [] x.k = "cmp"   -> WTExpr(x.es[1], "value") /\ WTExpr(x.es[2], "value")
    [] x.k = "test"  -> LET e == x.es[1] IN
                          CASE e.k = "q"  -> WTSegs(e.segs)
                            [] e.k = "fn" -> WTExpr(e, "logical")
                            [] OTHER -> FALSE
InIJson(i) == i = ABSENT \/ Abs(i) <= BIG
WTSegs(segs) ==
  \A i \in 1..Len(segs) : Len(segs[i].sels) >= 1 /\ \A j \in 1..Len(segs[i].sels) :
    LET s == segs[i].sels[j] IN
      CASE s.k = "filter" -> WTLx(s.f[1])
        [] s.k = "index"  -> InIJson(s.i) /\ s.i # ABSENT
        [] s.k = "slice"  -> InIJson(s.st) /\ InIJson(s.en) /\ InIJson(s.sp)
        [] OTHER -> TRUE
WellTyped(q) == WTSegs(q)

(* ---------- canonical rendering (code points) ---------------------------- *)
Ch(c) == <<c>>
Str(s) == s          \* a TLA+ tuple of code points
\* ASCII helpers
cDOLLAR == 36  cAT == 64  cDOT == 46  cLB == 91  cRB == 93  cSTAR == 42  cQ == 63  cCOLON == 58
cCOMMA == 44  cSQ == 39  cDQ == 34  cBS == 92  cLP == 40  cRP == 41  cBANG == 33  cSP == 32
cMINUS == 45  cPLUS == 43  cAMP == 38  cBAR == 124  cEQ == 61  cLT == 60  cGT == 62
cSLASH == 47  cUSCORE == 95

RECURSIVE DecDigits(_)
DecDigits(n) == IF n < 10 THEN <<48 + n>> ELSE Append(DecDigits(n \div 10), 48 + (n % 10))
\* 2^53-1+d for d in -2..2 written out (TLC integers are 32-bit)
BigDigits(d) ==
  LET base == <<57,48,48,55,49,57,57,50,53,52,55,52,48,57>>   \* 90071992547409
  IN base \o (CASE d = -2 -> <<56, 57>> [] d = -1 -> <<57, 48>> [] d = 0 -> <<57, 49>>
                [] d = 1 -> <<57, 50>> [] d = 2 -> <<57, 51>>)
RenderInt(i) ==
  (IF i < 0 THEN <<cMINUS>> ELSE <<>>) \o
  (IF IsBig(i) THEN BigDigits(Abs(i) - BIG) ELSE DecDigits(Abs(i)))

HexDigit(n) == IF n < 10 THEN 48 + n ELSE 55 + n            \* upper case
Hex4(c) == <<HexDigit(c \div 4096), HexDigit((c \div 256) % 16), HexDigit((c \div 16) % 16), HexDigit(c % 16)>>

\* one character of a string literal quoted with q (cSQ or cDQ), escaped only where the ABNF demands it
EscChar(c, q) ==
  CASE c = q    -> <<cBS, q>>
    [] c = cBS  -> <<cBS, cBS>>
    [] c = 8    -> <<cBS, 98>>
    [] c = 12   -> <<cBS, 102>>
    [] c = 10   -> <<cBS, 110>>
    [] c = 13   -> <<cBS, 114>>
    [] c = 9    -> <<cBS, 116>>
    [] c < 32   -> <<cBS, 117>> \o Hex4(c)
    [] OTHER    -> <<c>>
RenderStrLit(s, q) == <<q>> \o FlattenSeq([i \in 1..Len(s) |-> EscChar(s[i], q)]) \o <<q>>

\* number literal: integers in decimal; floats as <m>e<e>  (valid: number = int [frac] [exp])
RenderNum(v) ==
  IF ~v.f /\ v.e >= 0 THEN (IF v.m = 0 THEN <<48>> ELSE RenderInt(v.m) \o v.s \o [i \in 1..v.e |-> 48])      \* digits then e zeros (no 32-bit overflow)
  ELSE RenderInt(v.m) \o v.s \o <<101>> \o RenderInt(v.e)                                                     \* v.s: the extra mantissa digits of JNumX

RenderLit(v) ==
  CASE v.t = "null" -> <<110,117,108,108>>
    [] v.t = "bool" -> IF v.b THEN <<116,114,117,101>> ELSE <<102,97,108,115,101>>
    [] v.t = "num"  -> RenderNum(v)
    [] v.t = "str"  -> RenderStrLit(v.s, cSQ)

RECURSIVE JoinSeq(_, _)
JoinSeq(ss, sep) == IF ss = <<>> THEN <<>>
                    ELSE IF Len(ss) = 1 THEN ss[1]
                    ELSE ss[1] \o sep \o JoinSeq(Tail(ss), sep)

FnNameCP(name) ==
  CASE name = "length" -> <<108,101,110,103,116,104>>
    [] name = "count"  -> <<99,111,117,110,116>>
    [] name = "value"  -> <<118,97,108,117,101>>
    [] name = "match"  -> <<109,97,116,99,104>>
    [] name = "search" -> <<115,101,97,114,99,104>>
    [] name = "in"     -> <<105,110>>
    [] name = "nin"    -> <<110,105,110>>
    [] name = "none_of" -> <<110,111,110,101,95,111,102>>
    [] name = "any_of"  -> <<97,110,121,95,111,102>>
    [] name = "subset_of" -> <<115,117,98,115,101,116,95,111,102>>
OpCP(op) ==
  CASE op = "==" -> <<cEQ, cEQ>> [] op = "!=" -> <<cBANG, cEQ>> [] op = "<" -> <<cLT>>
    [] op = "<=" -> <<cLT, cEQ>> [] op = ">" -> <<cGT>> [] op = ">=" -> <<cGT, cEQ>>

RECURSIVE RenderSel(_), RenderSegs(_), RenderExpr(_), RenderLx(_, _)
RenderSel(s) ==
  CASE s.k = "name"  -> RenderStrLit(s.n, cSQ)
    [] s.k = "wild"  -> <<cSTAR>>
    [] s.k = "index" -> RenderInt(s.i)
    [] s.k = "slice" -> (IF s.st = ABSENT THEN <<>> ELSE RenderInt(s.st)) \o <<cCOLON>>
                        \o (IF s.en = ABSENT THEN <<>> ELSE RenderInt(s.en))
                        \o (IF s.sp = ABSENT THEN <<>> ELSE <<cCOLON>> \o RenderInt(s.sp))
    [] s.k = "filter" -> <<cQ>> \o RenderLx(s.f[1], 0)
RenderSegs(segs) ==
  FlattenSeq([i \in 1..Len(segs) |->
     (IF segs[i].desc THEN <<cDOT, cDOT>> ELSE <<>>) \o <<cLB>>
     \o JoinSeq([j \in 1..Len(segs[i].sels) |-> RenderSel(segs[i].sels[j])], <<cCOMMA>>) \o <<cRB>>])
RenderExpr(e) ==
  CASE e.k = "lit" -> RenderLit(e.v)
    [] e.k = "q"   -> <<IF e.abs THEN cDOLLAR ELSE cAT>> \o RenderSegs(e.segs)
    [] e.k = "fn"  -> FnNameCP(e.fname) \o <<cLP>>
                      \o JoinSeq([i \in 1..Len(e.args) |-> RenderExpr(e.args[i])], <<cCOMMA>>) \o <<cRP>>
    [] e.k = "lx"  -> RenderLx(e.lx[1], 0)
\* ctx: 0 = top / inside parentheses, 1 = operand of ||, 2 = operand of &&.
\* The abstract syntax has an explicit "paren" node, so no parentheses are invented here:
\* an "or" directly under an "and" is NOT expressible without a paren node and is never built.
RenderLx(x, ctx) ==
  CASE x.k = "or"  -> JoinSeq([i \in 1..Len(x.xs) |-> RenderLx(x.xs[i], 1)], <<cBAR, cBAR>>)
    [] x.k = "and" -> JoinSeq([i \in 1..Len(x.xs) |-> RenderLx(x.xs[i], 2)], <<cAMP, cAMP>>)
    [] x.k = "paren" -> (IF x.neg THEN <<cBANG>> ELSE <<>>) \o <<cLP>> \o RenderLx(x.xs[1], 0) \o <<cRP>>
    [] x.k = "cmp" -> RenderExpr(x.es[1]) \o OpCP(x.op) \o RenderExpr(x.es[2])
    [] x.k = "test" -> (IF x.neg THEN <<cBANG>> ELSE <<>>) \o RenderExpr(x.es[1])

RenderQuery(segs) == <<cDOLLAR>> \o RenderSegs(segs)

\* Grammar shape: or-operands are and/basic, and-operands are basic (paren/cmp/test)
RECURSIVE LxShapeOK(_, _)
LxShapeOK(x, ctx) ==
  CASE x.k = "or"  -> ctx = 0 /\ \A i \in 1..Len(x.xs) : LxShapeOK(x.xs[i], 1)
    [] x.k = "and" -> ctx \in {0, 1} /\ \A i \in 1..Len(x.xs) : LxShapeOK(x.xs[i], 2)
    [] x.k = "paren" -> LxShapeOK(x.xs[1], 0)
    [] OTHER -> TRUE
=============================================================================
