-------------------------- MODULE GrammarUniverse --------------------------
(***************************************************************************)
(* Abstract queries whose spellings the grammar machine derives, and the   *)
(* bounds of a run; selected by VERIF_GRAMMAR \in {"C06","C07","C13"}.     *)
(***************************************************************************)
EXTENDS Universes

GMode == IF "VERIF_GRAMMAR" \in DOMAIN IOEnv THEN IOEnv.VERIF_GRAMMAR ELSE "C13"

nAB == <<97, 98>>   nSpace == <<97, 32, 98>>   nE == <<233>>   nEmoji == <<128512>>   nEmpty == <<>>
nDigit == <<48>>    nUnder == <<95, 97, 49>>
nDot == <<97, 46, 98>>   nDotSp == <<97, 46, 32, 98>>   nDots == <<46, 46, 32>>       \* a.b   a. b   ".. "  (dots and blanks INSIDE quotes mean nothing)
\* names that need escapes in at least one quoting style
nSq == <<97, 39>>   nDq == <<34, 98>>   nBs == <<92>>   nLf == <<97, 10>>   nCtl == <<1>>   nSlash == <<47>>   nTab == <<9>>  nVt == <<11>>
nC1 == <<133>>  nC1b == <<97, 159>>
nBmp == <<8364>>   nHighBmp == <<65533>>  nE000 == <<57344>>  nD7FF == <<55295>>  nSupp == <<65536>>  nMaxCp == <<1114111>>  nDel == <<127>>

RelB == ERel(<<N1(cB)>>)
AbsA == EAbs(<<N1(cA)>>)
Cmp(op, l, r) == LCmp(op, l, r)
T1(e) == LTest(FALSE, e)
F1(x) == Child(<<SFilter(x)>>)

PlainSegs == <<N1(cA), N1(nAB), N1(nSpace), N1(nE), N1(nEmoji), N1(nEmpty), N1(nDigit), N1(nUnder),
               Child(<<SWild>>), I1(0), I1(1), I1(-1), I1(BIG), I1(0 - BIG),
               Child(<<SSlice(ABSENT, ABSENT, ABSENT)>>), Child(<<SSlice(1, ABSENT, ABSENT)>>), Child(<<SSlice(ABSENT, 2, ABSENT)>>),
               Child(<<SSlice(0, 2, 1)>>), Child(<<SSlice(ABSENT, ABSENT, -1)>>), Child(<<SSlice(-2, ABSENT, 2)>>), Child(<<SSlice(BIG, 0 - BIG, -1)>>),
               Child(<<SName(cA), SName(cB)>>), Child(<<SIndex(0), SWild, SSlice(1, ABSENT, ABSENT)>>), Child(<<SName(cA), SIndex(-1)>>),
               Desc(<<SName(cA)>>), Desc(<<SWild>>), Desc(<<SIndex(0)>>), Desc(<<SName(cA), SIndex(1)>>), Desc(<<SName(nSpace)>>),
               N1(nDot), N1(nDotSp), Desc(<<SName(nDots)>>)>>
EscSegs == <<N1(nSq), N1(nDq), N1(nBs), N1(nLf), N1(nCtl), N1(nSlash), N1(nTab), N1(nVt), N1(nBmp), N1(nHighBmp), N1(nE000),
             N1(nD7FF), N1(nSupp), N1(nMaxCp), N1(nDel), N1(nC1), N1(nC1b), Desc(<<SName(nSq)>>), Child(<<SName(nDq), SName(nSq)>>)>>

Lit(v) == ELit(v)
FilterLx == <<
   T1(RelA), LTest(TRUE, RelA), T1(AbsA), T1(ERel(<<>>)), T1(ERel(<<Child(<<SWild>>)>>)), T1(ERel(<<Desc(<<SName(cB)>>)>>)),
   T1(ERel(<<Child(<<SFilter(T1(RelB))>>)>>)),                                      \* @[?@.b]
   T1(ERel(<<N1(cA), Child(<<SSlice(0, 1, ABSENT), SIndex(-1)>>)>>)),               \* @.a[0:1,-1]
   Cmp("==", RelA, Lit(JInt(1))), Cmp("!=", RelA, Lit(JStr(cA))), Cmp("<", RelA, Lit(JInt(100))), Cmp("<=", Lit(JInt(1)), RelB),
   Cmp(">", RelA, RelB), Cmp(">=", AbsA, ERel(<<>>)), Cmp("==", RelA, Lit(JNull)), Cmp("==", RelA, Lit(JBool(TRUE))), Cmp("!=", RelA, Lit(JBool(FALSE))),
   Cmp("==", ERel(<<N1(cA), I1(0)>>), Lit(F(15, -1))), Cmp("==", ERel(<<N1(nSpace), I1(-1), N1(cB)>>), Lit(JInt(100))),
   Cmp("==", RelA, Lit(JInt(230))), Cmp("==", RelA, Lit(F(3, -1))), Cmp(">=", RelA, Lit(JInt(230))),
   Cmp("==", RelA, Lit(JInt(0))), Cmp("<", RelA, Lit(JInt(-1))), Cmp("==", RelA, Lit(F(1, 2))), Cmp("==", RelA, Lit(JStr(nSpace))), Cmp("==", RelA, Lit(JStr(nEmpty))),
   Cmp("==", EFn("length", <<RelA>>), Lit(JInt(1))), Cmp(">", EFn("count", <<ERel(<<Child(<<SWild>>)>>)>>), Lit(JInt(1))),
   Cmp("==", EFn("value", <<ERel(<<Desc(<<SName(cA)>>)>>)>>), Lit(JInt(1))), Cmp("==", EFn("length", <<Lit(JStr(nAB))>>), Lit(JInt(2))),
   Cmp("<", EFn("length", <<EFn("value", <<ERel(<<Child(<<SWild>>)>>)>>)>>), EFn("count", <<EAbs(<<Child(<<SWild>>)>>)>>)),
   T1(EFn("match", <<RelA, Lit(JStr(<<97, 46, 42>>))>>)), LTest(TRUE, EFn("search", <<RelA, Lit(JStr(<<91, 97, 98, 93>>))>>)),
   T1(EFn("match", <<RelA, RelB>>)), T1(EFn("search", <<EFn("value", <<ERel(<<Child(<<SWild>>)>>)>>), Lit(JStr(cA))>>)),
   T1(EFn("match", <<RelA, Lit(JStr(<<91>>))>>)), LTest(TRUE, EFn("search", <<RelA, Lit(JStr(<<42, 97>>))>>)), T1(EFn("match", <<RelA, Lit(JStr(<<40, 97>>))>>)),   \* '['  '*a'  '(a': not regular expressions - still valid queries
   LOr(<<T1(EFn("search", <<RelA, Lit(JStr(<<97, 123, 50, 44, 49, 125>>))>>)), T1(RelB)>>),                                                                   \* search(@.a, 'a{2,1}') || @.b
   Cmp("==", RelA, Lit(JStr(nDotSp))), Cmp("!=", RelA, Lit(JStr(nDots))), T1(EFn("match", <<RelA, Lit(JStr(<<46, 42, 32, 120>>))>>)),                            \* 'a. b'  '.. '  match(@.a, '.* x')
   Cmp("==", EFn("length", <<ERel(<<I1(-1)>>)>>), Lit(JInt(1))), T1(EFn("match", <<ERel(<<N1(cA), I1(-1)>>), Lit(JStr(cA))>>)), T1(EFn("search", <<RelA, EAbs(<<I1(-1)>>)>>)),     \* negative indexes are singular
   Cmp("<", RelA, Lit(F(1, 16))), Cmp(">", RelA, Lit(F(-25, 29))), Cmp("==", RelA, Lit(F(90071992, 8))),                                                                  \* 1e16  -25e29  90071992e8
   LAnd(<<T1(RelA), T1(RelB)>>), LOr(<<T1(RelA), T1(RelB)>>), LOr(<<T1(RelA), LAnd(<<T1(RelB), Cmp("==", RelA, Lit(JInt(1)))>>)>>),
   LAnd(<<LParen(FALSE, LOr(<<T1(RelA), T1(RelB)>>)), LTest(TRUE, RelA)>>), LParen(TRUE, LAnd(<<T1(RelA), T1(RelB)>>)),
   LOr(<<LParen(TRUE, T1(RelA)), LParen(FALSE, Cmp("==", RelA, RelB)), T1(RelB)>>), LAnd(<<T1(RelA), T1(RelB), LTest(TRUE, AbsA)>>),
   LParen(FALSE, LParen(TRUE, LParen(FALSE, T1(RelA)))),
   Cmp(">", EFn("count", <<ERel(<<N1(cX), F1(LAnd(<<T1(RelA), T1(RelB), LTest(TRUE, ERel(<<N1(cC)>>))>>))>>)>>), Lit(JInt(0))),   \* count(@.x[?@.a && @.b && !@.c]) > 0
   T1(EFn("match", <<EFn("value", <<ERel(<<F1(LOr(<<T1(RelA), T1(RelB), T1(AbsA)>>))>>)>>), Lit(JStr(cA))>>)) >>
EscLx == << Cmp("==", RelA, Lit(JStr(nSq))), Cmp("==", RelA, Lit(JStr(nDq))), Cmp("==", RelA, Lit(JStr(nBs))), Cmp("==", RelA, Lit(JStr(nLf))),
            Cmp("==", ERel(<<N1(nSq)>>), Lit(JStr(nSupp))), Cmp("==", RelA, Lit(JStr(nDel))), Cmp("!=", RelA, Lit(JStr(nC1b))), T1(EFn("match", <<RelA, Lit(JStr(<<97, 92, 46>>))>>)), T1(ERel(<<N1(nDq), N1(nBs)>>)) >>
FilterSegs == [i \in 1..Len(FilterLx) |-> F1(FilterLx[i])]
EscFilterSegs == [i \in 1..Len(EscLx) |-> F1(EscLx[i])]

\* ill-typed / invalid abstract queries (C07): rendered by the same machine, judged by the recogniser
BadLx == << LTest(TRUE, EFn("count", <<RelA>>)), LTest(TRUE, EFn("length", <<ERel(<<>>)>>)), LOr(<<T1(RelB), LTest(TRUE, EFn("value", <<ERel(<<Desc(<<SName(cA)>>)>>)>>))>>),    \* !count(@.a)   !length(@)   @.b || !value(@..a)
            T1(EFn("length", <<ERel(<<>>)>>)),                                      \* $[?length(@)]     value in test position
            T1(EFn("count", <<ERel(<<Child(<<SWild>>)>>)>>)),                        \* $[?count(@.*)]
            T1(EFn("value", <<RelA>>)),                                             \* $[?value(@.a)]
            Cmp("==", EFn("length", <<ERel(<<Child(<<SWild>>)>>)>>), Lit(JInt(1))),  \* length(@.*) == 1  non-singular for ValueType
            Cmp("==", EFn("count", <<Lit(JInt(1))>>), Lit(JInt(1))),                 \* count(1)
            Cmp("==", EFn("match", <<RelA, Lit(JStr(cA))>>), Lit(JBool(TRUE))),      \* match(..) == true
            T1(EFn("match", <<ERel(<<Child(<<SWild>>)>>), Lit(JStr(cA))>>)),         \* match(@.*, 'a')
            Cmp("==", ERel(<<Child(<<SWild>>)>>), Lit(JInt(1))),                     \* @.* == 1          non-singular comparable
            Cmp("==", ERel(<<Desc(<<SName(cA)>>)>>), Lit(JInt(1))),                  \* @..a == 1
            Cmp("<", ERel(<<Child(<<SSlice(0, 1, ABSENT)>>)>>), Lit(JInt(1))),       \* @[0:1] < 1
            Cmp("==", ERel(<<Child(<<SName(cA), SName(cB)>>)>>), Lit(JInt(1))),      \* @['a','b'] == 1
            Cmp("==", ERel(<<Child(<<SFilter(T1(RelA))>>)>>), Lit(JInt(1))),         \* @[?@.a] == 1
            T1(Lit(JInt(1))), T1(Lit(JStr(cA))), LTest(TRUE, Lit(JBool(TRUE))),       \* literal as test
            T1(EFn("length", <<RelA, RelB>>)), Cmp("==", EFn("length", <<>>), Lit(JInt(1))),   \* arity
            T1(EFn("match", <<RelA>>)), T1(EFn("search", <<RelA, RelB, RelA>>)),
            Cmp("==", EFn("count", <<ELx(Cmp("==", RelA, Lit(JInt(1))))>>), Lit(JInt(1))),     \* count(@.a == 1)
            Cmp("==", EFn("length", <<ERel(<<Desc(<<SName(cA)>>)>>)>>), Lit(JInt(1))),         \* length(@..a) == 1   descendant is not singular
            T1(EFn("match", <<ERel(<<Desc(<<SName(cA)>>)>>), Lit(JStr(cX))>>)),                \* match(@..a, 'x')
            T1(EFn("search", <<EAbs(<<N1(cA), Desc(<<SIndex(0)>>)>>), Lit(JStr(cX))>>)),       \* search($.a..[0], 'x')
            Cmp("==", EFn("length", <<ERel(<<N1(cA), Desc(<<SName(cB)>>)>>)>>), Lit(JInt(1))),
            Cmp("==", ERel(<<I1(BIG + 1)>>), Lit(JInt(1))), Cmp("==", EAbs(<<N1(cA), I1(0 - BIG - 1)>>), Lit(JInt(1))),     \* out-of-range index inside a singular query
            T1(ERel(<<I1(BIG + 2)>>)), Cmp(">", EFn("length", <<ERel(<<I1(0 - BIG - 2)>>)>>), Lit(JInt(0))) >>
BadSegs == [i \in 1..Len(BadLx) |-> F1(BadLx[i])]
           \o [i \in 1..6 |-> Child(<<SIndex(0), SFilter(BadLx[i * 3])>>)]                              \* $[0, ?<ill-typed>]
           \o <<Child(<<SIndex(0), SIndex(BIG + 1)>>), Child(<<SName(cA), SSlice(ABSENT, 0 - BIG - 1, ABSENT), SWild>>),
                Desc(<<SIndex(0), SIndex(0 - BIG - 1)>>)>>
           \o <<I1(BIG + 1), I1(0 - BIG - 1), Child(<<SSlice(BIG + 1, ABSENT, ABSENT)>>), Child(<<SSlice(ABSENT, 0 - BIG - 1, ABSENT)>>),
                Child(<<SSlice(ABSENT, ABSENT, BIG + 1)>>), Child(<<SSlice(1, 2, 0 - BIG - 2)>>)>>

One(segs) == [i \in 1..Len(segs) |-> <<segs[i]>>]
Two(xs, ys) == Cross2(xs, ys, LAMBDA x, y : <<x, y>>)
Core2 == <<N1(cA), Child(<<SWild>>), I1(0), Desc(<<SName(cB)>>), Child(<<SName(cA), SIndex(1)>>), F1(T1(RelA)), F1(Cmp("==", RelA, Lit(JInt(1))))>>

\* names outside ASCII that both notations can spell: the reported paths of all spellings are compared with each other, too
nLS == <<97, 8232, 98>>   nPS == <<8233>>   nAmp == <<97, 38, 98>>   nZW == <<97, 8203>>   nBom == <<65279, 97>>      \* line / paragraph separator, &, zero-width space, BOM
\* non-ASCII characters that are "numeric" for Unicode but are ordinary name characters for RFC 9535 (only ASCII digits cannot start a shorthand name)
OddNameSegs == <<N1(<<1635>>), N1(<<178, 120>>), N1(<<189>>), N1(<<8547>>), N1(<<9312, 97>>), N1(<<65297, 65298>>), Desc(<<SName(<<1635>>)>>), F1(LTest(FALSE, ERel(<<N1(<<1635>>)>>))), N1(nC1b), N1(nC1), N1(nBmp), Desc(<<SName(nC1b)>>), Desc(<<SName(nC1)>>), N1(nLS), N1(nPS), Desc(<<SName(nLS)>>), N1(nAmp), N1(nZW), N1(nBom),
                 F1(LTest(FALSE, ERel(<<N1(nLS)>>))), F1(LCmp("==", RelA, ELit(JStr(nLS)))), F1(LCmp("!=", RelA, ELit(JStr(nAmp))))>>
AstsC13 == << <<>> >> \o One(PlainSegs) \o One(FilterSegs) \o Two(Core2, Core2) \o One(OddNameSegs) \o << <<N1(nC1), N1(nC1b)>> >>
           \o << <<N1(cA), Desc(<<SWild>>), F1(LOr(<<T1(RelA), Cmp("<", RelB, Lit(JInt(100)))>>)), I1(0)>> >>
AstsC06 == AstsC13 \o One(EscSegs) \o One(EscFilterSegs)
NonAsciiThenDesc == << <<N1(nE), Desc(<<SName(cA)>>)>>, <<N1(nEmoji), Desc(<<SIndex(0)>>)>>, <<N1(nBmp), Desc(<<SWild>>)>>,
                       <<F1(LAnd(<<Cmp("==", RelA, Lit(JStr(nE))), T1(ERel(<<Desc(<<SName(cB)>>)>>))>>))>>, <<N1(nE), N1(nEmoji), Desc(<<SName(nE)>>)>> >>
AstsC07 == AstsC06 \o One(BadSegs) \o NonAsciiThenDesc

Asts == CASE GMode = "C13" -> AstsC13 [] GMode = "C06" -> AstsC06 [] GMode = "C07" -> AstsC07
PickAst(i) == TRUE

Budget == CASE GMode = "C07" -> 1 [] OTHER -> (IF Thorough THEN 3 ELSE 2)
MutBase == IF Thorough THEN 1 ELSE 0         \* mutations are applied to sentences with at most that many variations
MaxBlanks == CASE GMode = "C07" -> 1 [] OTHER -> 2
MaxEscs   == CASE GMode = "C13" -> 0 [] OTHER -> 2
MaxParens == 2
BlankChars == {32, 9, 10, 13}
Quotes == {39, 34}
AltNumbers == TRUE
Mutations == GMode = "C07"
MutAlphabet == IF Thorough THEN {36, 64, 46, 91, 93, 42, 63, 58, 44, 39, 34, 45, 33, 48, 49, 97, 32, 40, 41, 61, 60, 38, 124, 92, 10, 65, 101}
               ELSE {36, 64, 46, 91, 93, 42, 63, 58, 44, 39, 34, 45, 33, 48, 49, 97, 32}
ExportDocs == GMode = "C13"

ProbeDocs == <<
  JObj(<<nDots, cA, nSpace, nDotSp, nDot, nAB, cB, nE, nEmoji>>,
       <<JObj(<<nDots>>, <<JInt(7)>>), JArr(<<F(15, -1), JInt(1), JObj(<<cA, cB>>, <<JInt(1), JInt(100)>>)>>), JArr(<<JObj(<<cB>>, <<JInt(100)>>)>>),
         JObj(<<cA>>, <<JStr(nDotSp)>>), JArr(<<JInt(8)>>),
         JInt(1), JStr(cA), JObj(<<cA>>, <<JInt(1)>>), JNull>>),
  JArr(<<JObj(<<cA, cB>>, <<JInt(1), JInt(1)>>), JObj(<<cA>>, <<JStr(cA)>>), JObj(<<cA, cB>>, <<JInt(100), JStr(nAB)>>),
         JArr(<<JInt(0), JInt(1), JInt(2)>>), JArr(<<>>), JObj(<<>>, <<>>), JObj(<<cB>>, <<JBool(TRUE)>>), JObj(<<cA>>, <<JNull>>), JObj(<<cA>>, <<F(1, 2)>>), JInt(1),
         JObj(<<cA>>, <<JInt(230)>>), JObj(<<cA>>, <<F(3, -1)>>), JObj(<<cA>>, <<F(23, 1)>>)>>),
  JObj(<<nEmpty, nDigit, nUnder, cA, nC1b, nLS, nC1, nBmp>>, <<JInt(1), JArr(<<JInt(5)>>), JObj(<<cA>>, <<JObj(<<cA>>, <<JInt(1)>>)>>), JObj(<<cA, cB>>, <<JStr(nSpace), JStr(nEmpty)>>),
                                                     JArr(<<JInt(1)>>), JObj(<<cA, nLS>>, <<JStr(nLS), JInt(9)>>), JObj(<<nC1b>>, <<JInt(2)>>), JInt(3)>>) >>
=============================================================================
