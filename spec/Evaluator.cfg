INIT Init
NEXT Next
INVARIANTS TypeOK NodesAreLocations SmallStepIsDenotation PrefixDenotation PreOrder PathRoundTrip SMOnlyThere Export
PROPERTIES InputMajorOrder ChildDepth DocUnchanged
CHECK_DEADLOCK FALSE
