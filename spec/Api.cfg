SPECIFICATION Spec
INVARIANTS AlwaysReturnable Export
PROPERTIES EveryCallReturns
CHECK_DEADLOCK FALSE
