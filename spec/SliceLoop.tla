----------------------------- MODULE SliceLoop -----------------------------
(***************************************************************************)
(* process_slice (src/query/selector.rs:55-122) as a machine of its own:   *)
(* the one genuine loop of the evaluator.  Init computes lower/upper from  *)
(* (len, start, end, step) exactly as the code does (norm, min/max clamps, *)
(* the two sign cases); Step emits idx and advances it by step.            *)
(* Checked: every emitted index is in range, the emitted sequence is the   *)
(* declarative RFC sequence (JPSemantics!SliceIndices), the number of      *)
(* iterations is bounded by len, and the loop terminates (liveness).       *)
(***************************************************************************)
EXTENDS JPSemantics, TLC, IOUtils

Tier == IF "VERIF_TIER" \in DOMAIN IOEnv THEN IOEnv.VERIF_TIER ELSE "quick"
MaxLen == IF Tier = "thorough" THEN 7 ELSE 5
W == IF Tier = "thorough" THEN 9 ELSE 6
Bounds == {ABSENT} \cup (0 - W)..W \cup {BIG, 0 - BIG, BIG - 1, 1 - BIG}

VARIABLES len, start, end, step, pc, idx, lower, upper, emitted, iters
vars == <<len, start, end, step, pc, idx, lower, upper, emitted, iters>>

Norm(i, n) == IF i >= 0 THEN i ELSE n + i

Init == /\ len \in 0..MaxLen /\ start \in Bounds /\ end \in Bounds /\ step \in Bounds
        /\ pc = "init" /\ idx = 0 /\ lower = 0 /\ upper = 0 /\ emitted = <<>> /\ iters = 0

Sp == IF step = ABSENT THEN 1 ELSE step

\* selector.rs:72-76 / 90-94
Setup == /\ pc = "init"
         /\ IF Sp > 0 THEN
              LET ns == Norm(IF start = ABSENT THEN 0 ELSE start, len)
                  ne == Norm(IF end = ABSENT THEN len ELSE end, len)
              IN /\ lower' = Min2(Max2(ns, 0), len) /\ upper' = Min2(Max2(ne, 0), len)
                 /\ idx' = Min2(Max2(ns, 0), len) /\ pc' = "up"
            ELSE IF Sp < 0 THEN
              LET ns == Norm(IF start = ABSENT THEN len - 1 ELSE start, len)
                  ne == Norm(IF end = ABSENT THEN (0 - len) - 1 ELSE end, len)
              IN /\ lower' = Min2(Max2(ne, 0 - 1), len - 1) /\ upper' = Min2(Max2(ns, 0 - 1), len - 1)
                 /\ idx' = Min2(Max2(ns, 0 - 1), len - 1) /\ pc' = "down"
            ELSE /\ pc' = "done" /\ UNCHANGED <<lower, upper, idx>>
         /\ UNCHANGED <<len, start, end, step, emitted, iters>>

\* selector.rs:80-86   while idx < upper { emit; idx += step }
StepUp == /\ pc = "up" /\ idx < upper
          /\ emitted' = Append(emitted, idx) /\ idx' = idx + Sp /\ iters' = iters + 1
          /\ UNCHANGED <<len, start, end, step, pc, lower, upper>>
\* selector.rs:97-103  while lower < idx { emit; idx += step }
StepDown == /\ pc = "down" /\ lower < idx
            /\ emitted' = Append(emitted, idx) /\ idx' = idx + Sp /\ iters' = iters + 1
            /\ UNCHANGED <<len, start, end, step, pc, lower, upper>>
Exit == /\ (pc = "up" /\ ~(idx < upper)) \/ (pc = "down" /\ ~(lower < idx))
        /\ pc' = "done"
        /\ UNCHANGED <<len, start, end, step, idx, lower, upper, emitted, iters>>

Next == Setup \/ StepUp \/ StepDown \/ Exit
Spec == Init /\ [][Next]_vars /\ WF_vars(Next)

EmittedInRange == \A k \in 1..Len(emitted) : 0 <= emitted[k] /\ emitted[k] < len
EmittedIsDeclarative == pc = "done" => emitted = SliceIndices(len, start, end, step)
IterationsBounded == iters <= len
NoOverflow == idx > 0 - 2147483647 /\ idx < 2147483647   \* stays far inside 32 bits: idx in [-(BIG+len), BIG+len]
Terminates == <>(pc = "done")
=============================================================================
