SPECIFICATION Spec
INVARIANTS TypeOK
PROPERTIES Terminates
CHECK_DEADLOCK FALSE
