SPECIFICATION Spec
INVARIANTS HistoryIndependent NoOpenCall Export
PROPERTIES ReadsDoNotWrite
CHECK_DEADLOCK FALSE
