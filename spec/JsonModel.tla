----------------------------- MODULE JsonModel -----------------------------
(***************************************************************************)
(* The JSON data model the fifteen properties talk about: values, strings  *)
(* as sequences of Unicode scalar values, numbers as decimal m * 10^e,     *)
(* locations (sequences of name / index steps), children, descendants in   *)
(* pre-order, RFC 9535 value equality and ordering.                        *)
(*                                                                         *)
(* Every domain is a record with a FIXED field set (TLC refuses to compare *)
(* values of different shapes, and it compares whenever it normalises a    *)
(* set); "absent" sub-structures are empty sequences.                      *)
(***************************************************************************)
EXTENDS Naturals, Integers, Sequences, FiniteSets

(* ---------- generic sequence helpers (no sets of heterogeneous values) -- *)
\* concatenation of a sequence of sequences; divide and conquer: recursion depth log n (TLC is quadratic in the DEPTH of a
\* recursion, and documents / names with thousands of elements are flattened here)
RECURSIVE FlattenRange(_, _, _)
FlattenRange(ss, lo, hi) == IF lo > hi THEN <<>>
                            ELSE IF lo = hi THEN ss[lo]
                            ELSE LET mid == (lo + hi) \div 2 IN FlattenRange(ss, lo, mid) \o FlattenRange(ss, mid + 1, hi)
FlattenSeq(ss) == FlattenRange(ss, 1, Len(ss))

MapSeq(s, Op(_)) == [i \in 1..Len(s) |-> Op(s[i])]
FlatMapSeq(s, Op(_)) == FlattenSeq([i \in 1..Len(s) |-> Op(s[i])])

FilterSeq(s, Test(_)) ==
  LET RECURSIVE F(_, _)
      F(lo, hi) == IF lo > hi THEN <<>>
                   ELSE IF lo = hi THEN (IF Test(s[lo]) THEN <<s[lo]>> ELSE <<>>)
                   ELSE LET mid == (lo + hi) \div 2 IN F(lo, mid) \o F(mid + 1, hi)
  IN F(1, Len(s))

SeqRange(s) == {s[i] : i \in 1..Len(s)}
CountIn(s, x) == Cardinality({i \in 1..Len(s) : s[i] = x})
Min2(a, b) == IF a <= b THEN a ELSE b
Max2(a, b) == IF a >= b THEN a ELSE b
Abs(a) == IF a < 0 THEN -a ELSE a

(* ---------- values ------------------------------------------------------ *)
Blank == [t |-> "null", b |-> FALSE, m |-> 0, e |-> 0, f |-> FALSE,
          s |-> <<>>, kids |-> <<>>, keys |-> <<>>]

JNull        == Blank
JBool(x)     == [Blank EXCEPT !.t = "bool", !.b = x]
JNum(m, e, f) == [Blank EXCEPT !.t = "num", !.m = m, !.e = e, !.f = f]   \* m * 10^e; f: stored/written as a float
JInt(i)      == JNum(i, 0, FALSE)
\* a number with MORE digits than a 32-bit integer holds: the decimal digits of |m| followed by the digit characters xs,
\* times 10^e (m # 0).  The field s is otherwise unused for numbers.
JNumX(m, xs, e, f) == [Blank EXCEPT !.t = "num", !.m = m, !.s = xs, !.e = e, !.f = f]
JStr(s)      == [Blank EXCEPT !.t = "str", !.s = s]
JArr(kids)   == [Blank EXCEPT !.t = "arr", !.kids = kids]
JObj(keys, kids) == [Blank EXCEPT !.t = "obj", !.keys = keys, !.kids = kids]
NOTHING      == [Blank EXCEPT !.t = "nothing"]       \* the empty result of a singular query / function

IsContainer(v) == v.t \in {"arr", "obj"}

(* ---------- numbers ------------------------------------------------------ *)
RECURSIVE NumNormM(_, _)
NumNormM(m, e) == IF m = 0 THEN <<0, 0>>
                  ELSE IF m % 10 = 0 THEN NumNormM(m \div 10, e + 1) ELSE <<m, e>>
\* % and \div are only applied to non-negative arguments
NumNorm(v) == LET a == NumNormM(Abs(v.m), v.e) IN <<(IF v.m < 0 THEN -1 ELSE 1) * a[1], a[2]>>

RECURSIVE Digits(_)
Digits(m) == IF m < 10 THEN 1 ELSE 1 + Digits(m \div 10)
RECURSIVE Pow10(_)
Pow10(n) == IF n = 0 THEN 1 ELSE 10 * Pow10(n - 1)

NumEqS(a, b) == NumNorm(a) = NumNorm(b)

\* ---- arbitrary precision: compare digit sequences instead of machine integers
RECURSIVE DigSeq(_)
DigSeq(n) == IF n < 10 THEN <<n>> ELSE Append(DigSeq(n \div 10), n % 10)
RECURSIVE StripLead(_)
StripLead(ds) == IF ds # <<>> /\ ds[1] = 0 THEN StripLead(Tail(ds)) ELSE ds
RECURSIVE StripTrail(_)
StripTrail(ds) == IF ds # <<>> /\ ds[Len(ds)] = 0 THEN StripTrail(SubSeq(ds, 1, Len(ds) - 1)) ELSE ds
\* [neg, ds, pos]: value = (+-) 0.ds * 10^pos with ds free of leading and trailing zeros (<<>> for zero)
NormX(v) == LET all == StripLead(DigSeq(Abs(v.m)) \o [i \in 1..Len(v.s) |-> v.s[i] - 48])
                ds == StripTrail(all)
            IN [neg |-> v.m < 0, ds |-> ds, pos |-> Len(all) + v.e]
RECURSIVE LexLt(_, _)
LexLt(a, b) == IF b = <<>> THEN FALSE ELSE IF a = <<>> THEN TRUE
               ELSE IF a[1] # b[1] THEN a[1] < b[1] ELSE LexLt(Tail(a), Tail(b))
PosLtX(x, y) == IF x.pos # y.pos THEN x.pos < y.pos ELSE LexLt(x.ds, y.ds)
NumEqX(a, b) == LET x == NormX(a)  y == NormX(b)
                IN x.ds = y.ds /\ (x.ds = <<>> \/ (x.neg = y.neg /\ x.pos = y.pos))
NumLtX(a, b) == LET x == NormX(a)  y == NormX(b) IN
  CASE x.ds = <<>> /\ y.ds = <<>> -> FALSE
    [] x.ds = <<>> -> ~y.neg
    [] y.ds = <<>> -> x.neg
    [] x.neg /\ ~y.neg -> TRUE
    [] ~x.neg /\ y.neg -> FALSE
    [] ~x.neg -> PosLtX(x, y)
    [] OTHER -> PosLtX(y, x)
IsLong(v) == v.s # <<>>
NumEq(a, b) == IF IsLong(a) \/ IsLong(b) THEN NumEqX(a, b) ELSE NumEqS(a, b)

\* a < b for positive normalised <<m, e>> pairs
PosLt(a, b) ==
  LET ma == Digits(a[1]) + a[2]
      mb == Digits(b[1]) + b[2]
  IN IF ma # mb THEN ma < mb
     ELSE LET lo == Min2(a[2], b[2])
          IN a[1] * Pow10(a[2] - lo) < b[1] * Pow10(b[2] - lo)

NumLtS(x, y) ==
  LET a == NumNorm(x)  b == NumNorm(y) IN
  CASE a[1] < 0 /\ b[1] >= 0 -> TRUE
    [] a[1] >= 0 /\ b[1] < 0 -> FALSE
    [] a[1] = 0 -> b[1] > 0
    [] b[1] = 0 -> FALSE                    \* a > 0
    [] a[1] > 0 /\ b[1] > 0 -> PosLt(a, b)
    [] OTHER -> PosLt(<<-b[1], b[2]>>, <<-a[1], a[2]>>)

NumLt(x, y) == IF IsLong(x) \/ IsLong(y) THEN NumLtX(x, y) ELSE NumLtS(x, y)
\* the two formulations agree wherever both apply
ASSUME \A a \in {0 - 120, 0 - 7, 0, 3, 50, 1200} : \A b \in {0 - 7, 0, 5, 12, 300} : \A ea \in {0 - 2, 0, 1} : \A eb \in {0 - 1, 0, 2} :
         LET x == JNum(a, ea, TRUE)  y == JNum(b, eb, FALSE)
         IN NumEqS(x, y) = NumEqX(x, y) /\ NumLtS(x, y) = NumLtX(x, y) /\ NumLtS(y, x) = NumLtX(y, x)

(* ---------- strings ------------------------------------------------------ *)
RECURSIVE StrLt(_, _)
StrLt(a, b) == IF b = <<>> THEN FALSE
               ELSE IF a = <<>> THEN TRUE
               ELSE IF Head(a) # Head(b) THEN Head(a) < Head(b)
               ELSE StrLt(Tail(a), Tail(b))

(* ---------- RFC 9535 2.3.5.2.2 equality --------------------------------- *)
KeyIndex(v, name) == IF \E i \in 1..Len(v.keys) : v.keys[i] = name
                     THEN CHOOSE i \in 1..Len(v.keys) : v.keys[i] = name ELSE 0

RECURSIVE JEq(_, _)
JEq(a, b) ==
  IF a.t # b.t THEN FALSE
  ELSE CASE a.t = "null" -> TRUE
         [] a.t = "nothing" -> TRUE
         [] a.t = "bool" -> a.b = b.b
         [] a.t = "num"  -> NumEq(a, b)
         [] a.t = "str"  -> a.s = b.s
         [] a.t = "arr"  -> Len(a.kids) = Len(b.kids)
                            /\ \A i \in 1..Len(a.kids) : JEq(a.kids[i], b.kids[i])
         [] a.t = "obj"  -> Len(a.keys) = Len(b.keys)
                            /\ \A i \in 1..Len(a.keys) :
                                 LET j == KeyIndex(b, a.keys[i])
                                 IN j # 0 /\ JEq(a.kids[i], b.kids[j])

\* strict structural equality that also distinguishes int from float storage (serde_json ==)
RECURSIVE JSame(_, _)
JSame(a, b) ==
  IF a.t # b.t THEN FALSE
  ELSE CASE a.t \in {"null", "nothing"} -> TRUE
         [] a.t = "bool" -> a.b = b.b
         [] a.t = "num"  -> NumEq(a, b) /\ a.f = b.f
         [] a.t = "str"  -> a.s = b.s
         [] a.t = "arr"  -> Len(a.kids) = Len(b.kids)
                            /\ \A i \in 1..Len(a.kids) : JSame(a.kids[i], b.kids[i])
         [] a.t = "obj"  -> Len(a.keys) = Len(b.keys)
                            /\ \A i \in 1..Len(a.keys) :
                                 LET j == KeyIndex(b, a.keys[i])
                                 IN j # 0 /\ JSame(a.kids[i], b.kids[j])

(* ---------- locations ---------------------------------------------------- *)
NameStep(n) == [k |-> "n", n |-> n, i |-> 0]
IdxStep(i)  == [k |-> "i", n |-> <<>>, i |-> i]
Root == <<>>

HasChild(v, st) ==
  IF st.k = "i" THEN v.t = "arr" /\ st.i < Len(v.kids)
  ELSE v.t = "obj" /\ KeyIndex(v, st.n) # 0
ChildAt(v, st) == IF st.k = "i" THEN v.kids[st.i + 1] ELSE v.kids[KeyIndex(v, st.n)]

RECURSIVE Exists(_, _)
Exists(v, loc) == IF loc = <<>> THEN TRUE
                  ELSE HasChild(v, Head(loc)) /\ Exists(ChildAt(v, Head(loc)), Tail(loc))
RECURSIVE Lookup(_, _)
Lookup(v, loc) == IF loc = <<>> THEN v ELSE Lookup(ChildAt(v, Head(loc)), Tail(loc))

\* ordered child steps: array elements in index order, members in the document's own member order
ChildSteps(v) ==
  IF v.t = "arr" THEN [i \in 1..Len(v.kids) |-> IdxStep(i - 1)]
  ELSE IF v.t = "obj" THEN [i \in 1..Len(v.keys) |-> NameStep(v.keys[i])]
  ELSE <<>>
ChildLocs(doc, loc) == LET st == ChildSteps(Lookup(doc, loc))
                       IN [i \in 1..Len(st) |-> Append(loc, st[i])]

\* descendants-or-self in pre-order (a node before its descendants, children in order)
RECURSIVE DescOrSelfV(_, _)
DescOrSelfV(v, loc) ==
  LET st == ChildSteps(v)
  IN <<loc>> \o FlattenSeq([i \in 1..Len(st) |-> DescOrSelfV(ChildAt(v, st[i]), Append(loc, st[i]))])
DescOrSelf(doc, loc) == DescOrSelfV(Lookup(doc, loc), loc)
Locs(doc) == DescOrSelfV(doc, Root)

IsPrefixLoc(a, b) == Len(a) <= Len(b) /\ SubSeq(b, 1, Len(a)) = a

RECURSIVE ReplaceAt(_, _, _)
ReplaceAt(v, loc, w) ==
  IF loc = <<>> THEN w
  ELSE LET st == Head(loc)
           ix == IF st.k = "i" THEN st.i + 1 ELSE KeyIndex(v, st.n)
       IN [v EXCEPT !.kids[ix] = ReplaceAt(v.kids[ix], Tail(loc), w)]

RECURSIVE Depth(_)
Depth(v) == IF Len(v.kids) = 0 THEN 0
            ELSE 1 + CHOOSE d \in 0..64 :
                       /\ \E i \in 1..Len(v.kids) : Depth(v.kids[i]) = d
                       /\ \A i \in 1..Len(v.kids) : Depth(v.kids[i]) <= d

KeysDistinct(v) == \A i, j \in 1..Len(v.keys) : v.keys[i] = v.keys[j] => i = j
KeysSortedHere(v) == \A i \in 1..Len(v.keys) - 1 : StrLt(v.keys[i], v.keys[i + 1])
RECURSIVE KeysSorted(_)   \* member order = sorted by name (what serde_json's default map yields)
KeysSorted(v) == KeysSortedHere(v) /\ \A i \in 1..Len(v.kids) : KeysSorted(v.kids[i])
=============================================================================
