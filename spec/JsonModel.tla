----------------------------- MODULE JsonModel -----------------------------
(***************************************************************************)
(* The JSON data model the fifteen properties talk about: values, strings  *)
(* as sequences of Unicode scalar values, numbers as decimal m * 10^e,     *)
(* locations (sequences of name / index steps), children, descendants in   *)
(* pre-order, RFC 9535 value equality and ordering.                        *)
(*                                                                         *)
(* Every domain is a record with a FIXED field set (TLC refuses to compare *)
(* values of different shapes, and it compares whenever it normalises a    *)
(* set); "absent" sub-structures are empty sequences.                      *)
(***************************************************************************)
EXTENDS Naturals, Integers, Sequences, FiniteSets

(* ---------- generic sequence helpers (no sets of heterogeneous values) -- *)
RECURSIVE FlattenSeq(_)
FlattenSeq(ss) == IF ss = <<>> THEN <<>> ELSE Head(ss) \o FlattenSeq(Tail(ss))

MapSeq(s, Op(_)) == [i \in 1..Len(s) |-> Op(s[i])]
FlatMapSeq(s, Op(_)) == FlattenSeq([i \in 1..Len(s) |-> Op(s[i])])

FilterSeq(s, Test(_)) ==
  LET RECURSIVE F(_)
      F(i) == IF i > Len(s) THEN <<>>
              ELSE (IF Test(s[i]) THEN <<s[i]>> ELSE <<>>) \o F(i + 1)
  IN F(1)

SeqRange(s) == {s[i] : i \in 1..Len(s)}
CountIn(s, x) == Cardinality({i \in 1..Len(s) : s[i] = x})
Min2(a, b) == IF a <= b THEN a ELSE b
Max2(a, b) == IF a >= b THEN a ELSE b
Abs(a) == IF a < 0 THEN -a ELSE a

(* ---------- values ------------------------------------------------------ *)
Blank == [t |-> "null", b |-> FALSE, m |-> 0, e |-> 0, f |-> FALSE,
          s |-> <<>>, kids |-> <<>>, keys |-> <<>>]

JNull        == Blank
JBool(x)     == [Blank EXCEPT !.t = "bool", !.b = x]
JNum(m, e, f) == [Blank EXCEPT !.t = "num", !.m = m, !.e = e, !.f = f]   \* m * 10^e; f: stored/written as a float
JInt(i)      == JNum(i, 0, FALSE)
JStr(s)      == [Blank EXCEPT !.t = "str", !.s = s]
JArr(kids)   == [Blank EXCEPT !.t = "arr", !.kids = kids]
JObj(keys, kids) == [Blank EXCEPT !.t = "obj", !.keys = keys, !.kids = kids]
NOTHING      == [Blank EXCEPT !.t = "nothing"]       \* the empty result of a singular query / function

IsContainer(v) == v.t \in {"arr", "obj"}

(* ---------- numbers ------------------------------------------------------ *)
RECURSIVE NumNormM(_, _)
NumNormM(m, e) == IF m = 0 THEN <<0, 0>>
                  ELSE IF m % 10 = 0 THEN NumNormM(m \div 10, e + 1) ELSE <<m, e>>
\* % and \div are only applied to non-negative arguments
NumNorm(v) == LET a == NumNormM(Abs(v.m), v.e) IN <<(IF v.m < 0 THEN -1 ELSE 1) * a[1], a[2]>>

RECURSIVE Digits(_)
Digits(m) == IF m < 10 THEN 1 ELSE 1 + Digits(m \div 10)
RECURSIVE Pow10(_)
Pow10(n) == IF n = 0 THEN 1 ELSE 10 * Pow10(n - 1)

NumEq(a, b) == NumNorm(a) = NumNorm(b)

\* a < b for positive normalised <<m, e>> pairs
PosLt(a, b) ==
  LET ma == Digits(a[1]) + a[2]
      mb == Digits(b[1]) + b[2]
  IN IF ma # mb THEN ma < mb
     ELSE LET lo == Min2(a[2], b[2])
          IN a[1] * Pow10(a[2] - lo) < b[1] * Pow10(b[2] - lo)

NumLt(x, y) ==
  LET a == NumNorm(x)  b == NumNorm(y) IN
  CASE a[1] < 0 /\ b[1] >= 0 -> TRUE
    [] a[1] >= 0 /\ b[1] < 0 -> FALSE
    [] a[1] = 0 -> b[1] > 0
    [] b[1] = 0 -> FALSE                    \* a > 0
    [] a[1] > 0 /\ b[1] > 0 -> PosLt(a, b)
    [] OTHER -> PosLt(<<-b[1], b[2]>>, <<-a[1], a[2]>>)

(* ---------- strings ------------------------------------------------------ *)
RECURSIVE StrLt(_, _)
StrLt(a, b) == IF b = <<>> THEN FALSE
               ELSE IF a = <<>> THEN TRUE
               ELSE IF Head(a) # Head(b) THEN Head(a) < Head(b)
               ELSE StrLt(Tail(a), Tail(b))

(* ---------- RFC 9535 2.3.5.2.2 equality --------------------------------- *)
KeyIndex(v, name) == IF \E i \in 1..Len(v.keys) : v.keys[i] = name
                     THEN CHOOSE i \in 1..Len(v.keys) : v.keys[i] = name ELSE 0

RECURSIVE JEq(_, _)
JEq(a, b) ==
  IF a.t # b.t THEN FALSE
  ELSE CASE a.t = "null" -> TRUE
         [] a.t = "nothing" -> TRUE
         [] a.t = "bool" -> a.b = b.b
         [] a.t = "num"  -> NumEq(a, b)
         [] a.t = "str"  -> a.s = b.s
         [] a.t = "arr"  -> Len(a.kids) = Len(b.kids)
                            /\ \A i \in 1..Len(a.kids) : JEq(a.kids[i], b.kids[i])
         [] a.t = "obj"  -> Len(a.keys) = Len(b.keys)
                            /\ \A i \in 1..Len(a.keys) :
                                 LET j == KeyIndex(b, a.keys[i])
                                 IN j # 0 /\ JEq(a.kids[i], b.kids[j])

\* strict structural equality that also distinguishes int from float storage (serde_json ==)
RECURSIVE JSame(_, _)
JSame(a, b) ==
  IF a.t # b.t THEN FALSE
  ELSE CASE a.t \in {"null", "nothing"} -> TRUE
         [] a.t = "bool" -> a.b = b.b
         [] a.t = "num"  -> NumEq(a, b) /\ a.f = b.f
         [] a.t = "str"  -> a.s = b.s
         [] a.t = "arr"  -> Len(a.kids) = Len(b.kids)
                            /\ \A i \in 1..Len(a.kids) : JSame(a.kids[i], b.kids[i])
         [] a.t = "obj"  -> Len(a.keys) = Len(b.keys)
                            /\ \A i \in 1..Len(a.keys) :
                                 LET j == KeyIndex(b, a.keys[i])
                                 IN j # 0 /\ JSame(a.kids[i], b.kids[j])

(* ---------- locations ---------------------------------------------------- *)
NameStep(n) == [k |-> "n", n |-> n, i |-> 0]
IdxStep(i)  == [k |-> "i", n |-> <<>>, i |-> i]
Root == <<>>

HasChild(v, st) ==
  IF st.k = "i" THEN v.t = "arr" /\ st.i < Len(v.kids)
  ELSE v.t = "obj" /\ KeyIndex(v, st.n) # 0
ChildAt(v, st) == IF st.k = "i" THEN v.kids[st.i + 1] ELSE v.kids[KeyIndex(v, st.n)]

RECURSIVE Exists(_, _)
Exists(v, loc) == IF loc = <<>> THEN TRUE
                  ELSE HasChild(v, Head(loc)) /\ Exists(ChildAt(v, Head(loc)), Tail(loc))
RECURSIVE Lookup(_, _)
Lookup(v, loc) == IF loc = <<>> THEN v ELSE Lookup(ChildAt(v, Head(loc)), Tail(loc))

\* ordered child steps: array elements in index order, members in the document's own member order
ChildSteps(v) ==
  IF v.t = "arr" THEN [i \in 1..Len(v.kids) |-> IdxStep(i - 1)]
  ELSE IF v.t = "obj" THEN [i \in 1..Len(v.keys) |-> NameStep(v.keys[i])]
  ELSE <<>>
ChildLocs(doc, loc) == LET st == ChildSteps(Lookup(doc, loc))
                       IN [i \in 1..Len(st) |-> Append(loc, st[i])]

\* descendants-or-self in pre-order (a node before its descendants, children in order)
RECURSIVE DescOrSelfV(_, _)
DescOrSelfV(v, loc) ==
  LET st == ChildSteps(v)
  IN <<loc>> \o FlattenSeq([i \in 1..Len(st) |-> DescOrSelfV(ChildAt(v, st[i]), Append(loc, st[i]))])
DescOrSelf(doc, loc) == DescOrSelfV(Lookup(doc, loc), loc)
Locs(doc) == DescOrSelfV(doc, Root)

IsPrefixLoc(a, b) == Len(a) <= Len(b) /\ SubSeq(b, 1, Len(a)) = a

RECURSIVE ReplaceAt(_, _, _)
ReplaceAt(v, loc, w) ==
  IF loc = <<>> THEN w
  ELSE LET st == Head(loc)
           ix == IF st.k = "i" THEN st.i + 1 ELSE KeyIndex(v, st.n)
       IN [v EXCEPT !.kids[ix] = ReplaceAt(v.kids[ix], Tail(loc), w)]

RECURSIVE Depth(_)
Depth(v) == IF Len(v.kids) = 0 THEN 0
            ELSE 1 + CHOOSE d \in 0..64 :
                       /\ \E i \in 1..Len(v.kids) : Depth(v.kids[i]) = d
                       /\ \A i \in 1..Len(v.kids) : Depth(v.kids[i]) <= d

KeysDistinct(v) == \A i, j \in 1..Len(v.keys) : v.keys[i] = v.keys[j] => i = j
KeysSortedHere(v) == \A i \in 1..Len(v.keys) - 1 : StrLt(v.keys[i], v.keys[i + 1])
RECURSIVE KeysSorted(_)   \* member order = sorted by name (what serde_json's default map yields)
KeysSorted(v) == KeysSortedHere(v) /\ \A i \in 1..Len(v.kids) : KeysSorted(v.kids[i])
=============================================================================
