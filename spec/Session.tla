------------------------------ MODULE Session ------------------------------
(***************************************************************************)
(* C12: sessions of calls made by several threads on SHARED prepared       *)
(* queries and documents.                                                  *)
(*   Call(t)    thread t hands its next operation to an entry point        *)
(*   Return(t)  the call returns Project(entry, Denote(query, docs[d])):   *)
(*              a function of the query and the CURRENT document only -    *)
(*              never of the history, the thread or the entry point        *)
(*   Write(t)   (only while no call is in progress: Rust's &mut            *)
(*              exclusivity) replaces a node of a document                 *)
(* TLC explores every interleaving of the threads' programs; every         *)
(* complete history is exported with the expected result of every return   *)
(* and replayed (a) sequentially in one process against long-lived         *)
(* objects and (b) by real threads sharing the parsed queries.             *)
(***************************************************************************)
EXTENDS Universes, JPParse, TLC, Json

S(str) == str
dStr == JArr(<<JStr(cA), JStr(<<120, 97, 98>>), JStr(cB), JStr(<<98, 97>>), JStr(<<97, 98>>)>>)           \* ["a","xab","b","ba","ab"]
dObj == JObj(<<cA, cB>>, <<JArr(<<JInt(1), JInt(2)>>), JObj(<<cA>>, <<JInt(1)>>)>>)                       \* {"a":[1,2],"b":{"a":1}}
dMix == JArr(<<JObj(<<cA>>, <<JInt(1)>>), JObj(<<cA>>, <<JInt(2)>>), JArr(<<JInt(1)>>), JStr(<<97, 98>>)>>) \* [{"a":1},{"a":2},[1],"ab"]
dSet == JObj(<<<<101>>, cL, cX, cY>>, <<JArr(<<JStr(cA), JStr(cB), JStr(cC)>>), JArr(<<JStr(cA), JStr(cB)>>),
                                       JArr(<<JArr(<<JInt(1), JInt(2)>>), JArr(<<JInt(3)>>), JObj(<<cA>>, <<JInt(1)>>)>>), JArr(<<JInt(1), JInt(2)>>)>>)          \* {"e":[1,2,3],"l":[1,2]}
dEmpty == JObj(<<<<100>>, <<105>>>>, <<JObj(<<cA>>, <<JObj(<<cA>>, <<JObj(<<cA>>, <<JInt(1)>>)>>)>>), JArr(<<>>)>>)     \* {"d":{"a":{"a":{"a":1}}},"i":[]}
Wide(off) == JObj([i \in 1..17 |-> <<97 + i - 1, 48 + off>>], [i \in 1..17 |-> JInt(i + off)])      \* {"a0":1,...,"q0":17} / {"a1":2,...}
dWide == JObj(<<<<111>>, <<112>>>>, <<Wide(0), JArr(<<Wide(0), JInt(1)>>)>>)                               \* {"o": wide, "p": [wide, 1]}
Docs0 == <<dStr, dObj, dMix, dSet, dEmpty, dWide>>

Pat1 == <<97, 124, 98>>        \* a|b      : match and search differ on "xab", "ba", "ab"
Pat2 == <<97, 46, 42>>         \* a.*
Re(f, p) == Flt1(LTest(FALSE, EFn(f, <<ERel(<<>>), ELit(JStr(p))>>)))
SQ == << Re("match", Pat1), Re("search", Pat1), Re("match", Pat2), Re("search", Pat2),
         <<N1(cA)>>, <<Child(<<SWild>>)>>, <<Desc(<<SName(cA)>>)>>, <<Child(<<SIndex(0), SIndex(0)>>)>>,
         Flt1(LCmp("==", RelN(cA), ELit(JInt(1)))), Flt1(LCmp(">", EFn("length", <<ERel(<<>>)>>), ELit(JInt(1)))),
         Flt1(LTest(FALSE, EAbs(<<N1(cB)>>))),                                                                      \* 11: $[?$.b]   $-rooted existence test
         <<N1(<<101>>), Child(<<SFilter(LTest(FALSE, EFn("in", <<ERel(<<>>), EAbs(<<N1(cL)>>)>>)))>>)>>,           \* 12: $.e[?in(@, $.l)]
         <<N1(<<105>>), Desc(<<SName(cA)>>)>>,                                                                       \* 13: $.i..a   (.. applied to an empty array)
         <<Desc(<<SName(cA)>>)>>,                                                                                   \* 14: $..a
         <<N1(cX), Child(<<SFilter(LCmp("==", ERel(<<>>), EAbs(<<N1(cY)>>)))>>)>>,
         <<N1(<<111>>), Child(<<SWild>>)>>,                                                                          \* 16: $.o.*     (17 members)
         <<Desc(<<SFilter(LCmp(">", ERel(<<>>), ELit(JInt(16))))>>)>> >>                                              \* 17: $..[?@ > 16]                                  \* 15: $.x[?@ == $.y]   container equality                                                                                  \* 14: $..a
\* strings that are NOT queries (grammar errors and errors found after the grammar: typing, arity): a call with one of them
\* returns an error - and leaves nothing behind that a later call could notice
BadQ == << <<36, 91, 63, 99, 111, 117, 110, 116, 40, 49, 41, 32, 62, 32, 48, 93>>,
          <<36, 91, 63, 40, 64, 46, 97>>,
          <<36, 91, 63, 64, 46, 97, 32, 61, 61, 32, 93>>,
          <<36, 91, 63, 108, 101, 110, 103, 116, 104, 40, 64, 46, 42, 41, 32, 61, 61, 32, 49, 93>>,
          <<36, 46, 97, 91>>,
          <<36, 91, 63, 109, 97, 116, 99, 104, 40, 64, 46, 97, 41, 93>>,
          <<36, 91, 63, 64, 46, 97, 32, 61, 61, 32, 49, 32, 38, 38, 32, 40, 64, 46, 98, 32, 62, 32, 93>>,
          <<36, 46, 46, 91, 63, 118, 97, 108, 117, 101, 40, 64, 46, 97, 41, 93>>,
          \* padded spellings of queries that the session ALSO uses (a rejection must not stick to the valid query)
          <<32>> \o RenderQuery(SQ[5]), RenderQuery(SQ[7]) \o <<9>>, <<10>> \o RenderQuery(SQ[9]) \o <<13>>, RenderQuery(SQ[1]) \o <<32>> >>
\* $[?count(1) > 0]   $[?(@.a   $[?@.a == ]   $[?length(@.*) == 1]   $.a[   $[?match(@.a)]   $[?@.a == 1 && (@.b > ]   $..[?value(@.a)]
ASSUME \A k \in 1..Len(BadQ) : Verdict(BadQ[k]) = "invalid"
AllQueryStrings == [n \in 1..Len(SQ) |-> RenderQuery(SQ[n])] \o BadQ
Entries == <<"query", "query_with_path", "query_only_path", "prepared">>

OpBlank == [k |-> "eval", e |-> "", q |-> 0, d |-> 0, loc |-> <<>>, v |-> JNull]
Ev(e, q, d) == [OpBlank EXCEPT !.e = e, !.q = q, !.d = d]
Wr(d, loc, v) == [OpBlank EXCEPT !.k = "write", !.d = d, !.loc = loc, !.v = v]
Bad(e, k, d) == [OpBlank EXCEPT !.k = "bad", !.e = e, !.q = Len(SQ) + k, !.d = d]
\* the alphabet: operations chosen to interfere with each other
Ops == << Ev("query", 1, 1), Ev("prepared", 2, 1), Ev("query_only_path", 2, 1), Ev("query_with_path", 1, 1),   \* same pattern under match / search
          Ev("query", 3, 1), Ev("prepared", 4, 1),
          Ev("query", 5, 2), Ev("query_only_path", 5, 3), Ev("prepared", 6, 2), Ev("query_with_path", 6, 3),      \* same query on two documents
          Ev("query", 7, 2), Ev("prepared", 7, 3), Ev("query_only_path", 8, 2), Ev("query_with_path", 8, 3), Ev("query", 8, 1),
          Ev("prepared", 9, 3), Ev("query", 10, 1), Ev("prepared", 10, 3),
          Ev("prepared", 11, 2), Ev("query", 11, 2), Ev("prepared", 12, 4), Ev("query_with_path", 12, 4),
          Ev("query", 13, 5), Ev("prepared", 13, 5), Ev("query_with_path", 14, 5), Ev("prepared", 14, 2),
          Wr(1, <<IdxStep(1)>>, JStr(cB)), Wr(2, <<NameStep(cA)>>, JInt(7)), Wr(3, <<IdxStep(0), NameStep(cA)>>, JInt(2)),
          Wr(2, <<>>, JArr(<<JObj(<<cA>>, <<JInt(1)>>)>>)),                                   \* replaces the whole document in place: $.b disappears
          Wr(4, <<NameStep(cL), IdxStep(0)>>, JStr(cC)),                                     \* changes the list the membership test reads
          Ev("prepared", 15, 4), Ev("query", 15, 4), Wr(4, <<NameStep(cY), IdxStep(0)>>, JInt(3)), Wr(4, <<NameStep(cX), IdxStep(1), IdxStep(0)>>, JInt(1)),
          Ev("query_with_path", 16, 6), Ev("query_only_path", 16, 6), Ev("prepared", 17, 6), Wr(6, <<NameStep(<<111>>)>>, Wide(1)), Wr(6, <<NameStep(<<112>>), IdxStep(0)>>, Wide(1)),
          Bad("query", 1, 2), Bad("prepared", 2, 3), Bad("query_with_path", 3, 1), Bad("query_only_path", 4, 3), Bad("query", 5, 2), Bad("prepared", 6, 1),
          Bad("query_with_path", 7, 3), Bad("query", 8, 2), Bad("query", 9, 2), Bad("prepared", 10, 2), Bad("query_with_path", 11, 3), Bad("query_only_path", 12, 1) >>                                     \* changes the list the membership test reads
Progs == [i \in 1..Len(Ops) |-> <<Ops[i]>>] \o Cross2(Ops, Ops, LAMBDA a, b : <<a, b>>)

Threads == {1, 2}
VARIABLES prog, ip, pc, docs, hist
vars == <<prog, ip, pc, docs, hist>>

PairStride == IF Thorough THEN 211 ELSE 1499
Init == /\ \E i, j \in 1..Len(Progs) : Stride(PairStride, i, j) /\ prog = <<Progs[i], Progs[j]>>
        /\ ip = <<1, 1>> /\ pc = <<"idle", "idle">> /\ docs = Docs0 /\ hist = <<>>

HasNext(t) == ip[t] <= Len(prog[t])
Op(t) == prog[t][ip[t]]
Result(op) == LET ns == Denote(SQ[op.q], docs[op.d])
              IN [locs |-> ns, paths |-> [n \in 1..Len(ns) |-> NormalizedPath(ns[n])]]
EvBlank == [ev |-> "call", t |-> 0, op |-> OpBlank, locs |-> <<>>, paths |-> <<>>, applied |-> FALSE, wpath |-> <<>>]

Call(t) == /\ pc[t] = "idle" /\ HasNext(t) /\ Op(t).k \in {"eval", "bad"}
           /\ pc' = [pc EXCEPT ![t] = "inCall"]
           /\ hist' = Append(hist, [EvBlank EXCEPT !.ev = "call", !.t = t, !.op = Op(t)])
           /\ UNCHANGED <<prog, ip, docs>>
Return(t) == /\ pc[t] = "inCall"
             /\ IF Op(t).k = "bad"
                THEN hist' = Append(hist, [EvBlank EXCEPT !.ev = "error", !.t = t, !.op = Op(t)])           \* the call returns Err
                ELSE LET r == Result(Op(t)) IN
                     hist' = Append(hist, [EvBlank EXCEPT !.ev = "return", !.t = t, !.op = Op(t), !.locs = r.locs, !.paths = r.paths])
             /\ pc' = [pc EXCEPT ![t] = "idle"] /\ ip' = [ip EXCEPT ![t] = ip[t] + 1]
             /\ UNCHANGED <<prog, docs>>
\* &mut exclusivity: a write happens only while no evaluation is in progress
Write(t) == /\ \A u \in Threads : pc[u] = "idle"
            /\ HasNext(t) /\ Op(t).k = "write"
            /\ LET op == Op(t)  ex == Exists(docs[op.d], op.loc) IN
               /\ docs' = IF ex THEN [docs EXCEPT ![op.d] = ReplaceAt(docs[op.d], op.loc, op.v)] ELSE docs
               /\ hist' = Append(hist, [EvBlank EXCEPT !.ev = "write", !.t = t, !.op = op, !.applied = ex, !.wpath = NormalizedPath(op.loc)])
            /\ ip' = [ip EXCEPT ![t] = ip[t] + 1]
            /\ UNCHANGED <<prog, pc>>
Next == \E t \in Threads : Call(t) \/ Return(t) \/ Write(t)
Spec == Init /\ [][Next]_vars
Done == \A t \in Threads : pc[t] = "idle" /\ ~HasNext(t)

(* ---------- what "pure function of query and document" means on histories ----------------- *)
Returns == {n \in 1..Len(hist) : hist[n].ev = "return"}
\* the three string entry points and the prepared query return the same nodes for the same (query, document)
\* and any two returns between which the document was not written are equal: the result does not depend on history
DocVersion(n, d) == Cardinality({m \in 1..n : hist[m].ev = "write" /\ hist[m].op.d = d /\ hist[m].applied})
HistoryIndependent ==
  \A a, b \in Returns :
     (hist[a].op.q = hist[b].op.q /\ hist[a].op.d = hist[b].op.d /\ DocVersion(a, hist[a].op.d) = DocVersion(b, hist[b].op.d))
        => (hist[a].locs = hist[b].locs /\ hist[a].paths = hist[b].paths)
\* evaluation itself never changes a document
ReadsDoNotWrite == [][(\E t \in Threads : Call(t) \/ Return(t)) => docs' = docs]_vars
\* a call is never left open when the session is done
NoOpenCall == Done => \A n \in 1..Len(hist) : hist[n].ev = "call" => \E m \in (n + 1)..Len(hist) : hist[m].ev \in {"return", "error"} /\ hist[m].t = hist[n].t

Export == Done => PrintT(<<"REPLAY", ToJson([mode |-> "session", id |-> <<Len(hist)>>, docs |-> Docs0,
                                             queries |-> AllQueryStrings, valid |-> Len(SQ), hist |-> hist])>>)
=============================================================================
