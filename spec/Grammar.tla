------------------------------ MODULE Grammar ------------------------------
(***************************************************************************)
(* RFC 9535 Appendix A read as a non-deterministic GENERATOR (unparser):   *)
(* a stack machine that derives, from an abstract query, every concrete    *)
(* spelling the ABNF allows - optional blank space at every S, both quote  *)
(* styles, every escape form, shorthand vs bracket notation, redundant     *)
(* parentheses, number spellings.  One action per production family.       *)
(*                                                                         *)
(* After a derivation is complete a Mutate action may apply ONE edit       *)
(* (delete / insert / replace one character) - the near-miss strings of    *)
(* C07.  Every exported string is labelled by the recogniser JPParse       *)
(* (Verdict), so the two formulations of the grammar check each other:     *)
(*   GenSound      an un-mutated derivation of a well-typed AST is "valid" *)
(*   SpellingSame  and parses back to an AST with the same denotation      *)
(***************************************************************************)
EXTENDS JPParse, GrammarUniverse, TLC, Json

VARIABLES ai, stack, out, blanks, escs, parens, numalt, style, phase
vars == <<ai, stack, out, blanks, escs, parens, numalt, style, phase>>
\* every departure from the canonical spelling costs one unit of the variation budget
Used == blanks + escs + parens + numalt + style
Can == Used < Budget
ast == Asts[ai]

(* ---------- stack items ------------------------------------------------------ *)
It0 == [k |-> "T", cps |-> <<>>, n |-> 0, b |-> FALSE, sels |-> <<>>, segs |-> <<>>, es |-> <<>>, xs |-> <<>>]
T(cps)       == [It0 EXCEPT !.k = "T", !.cps = cps]
SP           == [It0 EXCEPT !.k = "S"]
ISegs(segs)  == [It0 EXCEPT !.k = "segs", !.segs = segs]
ISeg(sg)     == [It0 EXCEPT !.k = "seg", !.segs = <<sg>>]
ISSegs(segs) == [It0 EXCEPT !.k = "ssegs", !.segs = segs]       \* singular-query-segments
ISel(s)      == [It0 EXCEPT !.k = "sel", !.sels = <<s>>]
IStr(cps)    == [It0 EXCEPT !.k = "str", !.cps = cps]
IChs(cps, q) == [It0 EXCEPT !.k = "chs", !.cps = cps, !.n = q]  \* remaining characters of a string quoted with q
ILx(x)       == [It0 EXCEPT !.k = "lx", !.xs = <<x>>]
IEx(e, cmp)  == [It0 EXCEPT !.k = "ex", !.es = <<e>>, !.b = cmp] \* cmp: operand of a comparison (singular-query syntax)

Alt(items) == [items |-> items, db |-> 0, de |-> 0, dp |-> 0, dn |-> 0, ds |-> 0]
Styled(a) == [a EXCEPT !.ds = 1]

RECURSIVE Interleave(_, _)
\* x1 sep x2 sep ... xn   (xs and sep are tuples of items / item tuples)
Interleave(xss, sep) == IF Len(xss) = 0 THEN <<>>
                        ELSE IF Len(xss) = 1 THEN xss[1]
                        ELSE xss[1] \o sep \o Interleave(Tail(xss), sep)

Shorthandable(n) == Len(n) >= 1 /\ IsNameFirst(n[1]) /\ \A i \in 2..Len(n) : IsNameChar(n[i])

(* ---------- number spellings --------------------------------------------------- *)
\* spellings of the literal v; the first one is the canonical one
NumSpellings(v) ==
  IF ~v.f /\ v.e >= 0 THEN
    LET d == v.m * Pow10(v.e)  ds == RenderInt(d) IN
    <<ds, ds \o <<46, 48>>, ds \o <<101, 48>>, ds \o <<69, 43, 48>>>>
    \o (IF d # 0 /\ d % 10 = 0 THEN <<RenderInt(d \div 10) \o <<101, 49>>, RenderInt(d \div 10) \o <<46, 48, 69, 49>>>> ELSE <<>>)
    \o (IF d >= 100 /\ d % 10 = 0 THEN <<RenderInt(d \div 100) \o <<46, 48 + ((d \div 10) % 10), 101, 50>>>> ELSE <<>>)      \* 230 = 2.3e2
    \o (IF d # 0 /\ d % 100 = 0 THEN <<RenderInt(d \div 100) \o <<101, 50>>, RenderInt(d \div 100) \o <<101, 43, 50>>, RenderInt(d \div 100) \o <<46, 48, 48, 101, 48, 50>>>> ELSE <<>>)
  ELSE <<RenderNum(v)>>
       \o (IF v.e = 0 - 1 /\ v.m >= 0 THEN <<RenderInt(v.m \div 10) \o <<46, 48 + (v.m % 10)>>>> ELSE <<>>)   \* 15e-1 = 1.5
       \o (IF v.e = 0 THEN <<RenderInt(v.m) \o <<46, 48>>>> ELSE <<>>)
       \o (IF v.e = 0 - 1 /\ v.m >= 0 /\ v.m < 10 THEN <<<<48, 46, 48 + v.m>>, <<48 + v.m, 48, 101, 45, 50>>>> ELSE <<>>)       \* 3e-1 = 0.3 = 30e-2

(* ---------- character spellings ------------------------------------------------- *)
HexL(n) == IF n < 10 THEN 48 + n ELSE 87 + n
Hex4L(c) == <<HexL(c \div 4096), HexL((c \div 256) % 16), HexL((c \div 16) % 16), HexL(c % 16)>>
UEsc(c, upper) == <<92, 117>> \o (IF upper THEN Hex4(c) ELSE Hex4L(c))
SurrHi(c) == 55296 + ((c - 65536) \div 1024)
SurrLo(c) == 56320 + ((c - 65536) % 1024)
Named(c) == CASE c = 8 -> <<92, 98>> [] c = 12 -> <<92, 102>> [] c = 10 -> <<92, 110>> [] c = 13 -> <<92, 114>>
              [] c = 9 -> <<92, 116>> [] c = 92 -> <<92, 92>> [] c = 47 -> <<92, 47>> [] OTHER -> <<>>
\* mandatory spellings (free of charge) and optional escapes (cost one unit of the escape budget)
MustEscape(c, q) == c = q \/ c = 92 \/ c < 32
FreeSpellings(c, q) ==
  IF c = q THEN {<<92, q>>}
  ELSE IF c = 92 THEN {<<92, 92>>}
  ELSE IF c < 32 THEN (IF Named(c) # <<>> THEN {Named(c)} ELSE {UEsc(c, TRUE)})
  ELSE {<<c>>}
PaidSpellings(c, q) ==
  (IF c = 47 THEN {<<92, 47>>} ELSE {})
  \cup (IF c < 65536 /\ ~(c >= 55296 /\ c <= 57343) THEN {UEsc(c, TRUE), UEsc(c, FALSE)} ELSE {})
  \cup (IF c >= 65536 THEN {UEsc(SurrHi(c), TRUE) \o UEsc(SurrLo(c), TRUE), UEsc(SurrHi(c), FALSE) \o UEsc(SurrLo(c), FALSE)} ELSE {})

(* ---------- productions ------------------------------------------------------------ *)
SelItems(s) ==
  CASE s.k = "name"  -> {Alt(<<IStr(s.n)>>)}
    [] s.k = "wild"  -> {Alt(<<T(<<42>>)>>)}
    [] s.k = "index" -> {Alt(<<T(RenderInt(s.i))>>)}
    [] s.k = "slice" ->
         LET st == IF s.st = ABSENT THEN <<>> ELSE <<T(RenderInt(s.st)), SP>>
             en == IF s.en = ABSENT THEN <<>> ELSE <<T(RenderInt(s.en)), SP>>
             head == st \o <<T(<<58>>), SP>> \o en
         IN IF s.sp = ABSENT THEN {Alt(head)} \cup (IF Can THEN {Styled(Alt(head \o <<T(<<58>>)>>))} ELSE {})
            ELSE {Alt(head \o <<T(<<58>>), SP, T(RenderInt(s.sp))>>)}
    [] s.k = "filter" -> {Alt(<<T(<<63>>), SP, ILx(s.f[1])>>)}

Bracketed(sels) == <<T(<<91>>), SP>> \o Interleave([i \in 1..Len(sels) |-> <<ISel(sels[i])>>], <<SP, T(<<44>>), SP>>) \o <<SP, T(<<93>>)>>
SegAlts(sg) ==
  LET dots == IF sg.desc THEN <<T(<<46, 46>>)>> ELSE <<>> IN
  {Alt(dots \o Bracketed(sg.sels))}
  \cup (IF Can /\ Len(sg.sels) = 1 /\ sg.sels[1].k = "wild"
        THEN {Styled(Alt(<<T((IF sg.desc THEN <<46, 46>> ELSE <<46>>) \o <<42>>)>>))} ELSE {})
  \cup (IF Can /\ Len(sg.sels) = 1 /\ sg.sels[1].k = "name" /\ Shorthandable(sg.sels[1].n)
        THEN {Styled(Alt(<<T((IF sg.desc THEN <<46, 46>> ELSE <<46>>) \o sg.sels[1].n)>>))} ELSE {})
\* singular-query segment: "[" name-selector "]" / "." shorthand / "[" int "]"  (no blank space inside)
SSegAlts(sg) ==
  LET s == sg.sels[1] IN
  IF s.k = "index" THEN {Alt(<<T(<<91>> \o RenderInt(s.i) \o <<93>>)>>)}
  ELSE {Alt(<<T(<<91>>), IStr(s.n), T(<<93>>)>>)}
       \cup (IF Can /\ Shorthandable(s.n) THEN {Styled(Alt(<<T(<<46>> \o s.n)>>))} ELSE {})

OpItem(op) == T(OpCP(op))
Wrap(items) == [Alt(<<T(<<40>>), SP>> \o items \o <<SP, T(<<41>>)>>) EXCEPT !.dp = 1]
LxAlts(x) ==
  LET base ==
    CASE x.k = "or"  -> Interleave([i \in 1..Len(x.xs) |-> <<ILx(x.xs[i])>>], <<SP, T(<<124, 124>>), SP>>)
      [] x.k = "and" -> Interleave([i \in 1..Len(x.xs) |-> <<ILx(x.xs[i])>>], <<SP, T(<<38, 38>>), SP>>)
      [] x.k = "paren" -> (IF x.neg THEN <<T(<<33>>), SP>> ELSE <<>>) \o <<T(<<40>>), SP, ILx(x.xs[1]), SP, T(<<41>>)>>
      [] x.k = "cmp" -> <<IEx(x.es[1], TRUE), SP, OpItem(x.op), SP, IEx(x.es[2], TRUE)>>
      [] x.k = "test" -> (IF x.neg THEN <<T(<<33>>), SP>> ELSE <<>>) \o <<IEx(x.es[1], FALSE)>>
  IN {Alt(base)} \cup (IF Can /\ parens < MaxParens THEN {Wrap(base)} ELSE {})

ExAlts(e, cmp) ==
  CASE e.k = "lit" ->
         (CASE e.v.t = "num" -> LET sp == NumSpellings(e.v) IN
                                  {Alt(<<T(sp[1])>>)} \cup (IF Can /\ AltNumbers THEN {[Alt(<<T(sp[i])>>) EXCEPT !.dn = 1] : i \in 2..Len(sp)} ELSE {})
            [] e.v.t = "str" -> {Alt(<<IStr(e.v.s)>>)}
            [] OTHER -> {Alt(<<T(RenderLit(e.v))>>)})
    [] e.k = "q" -> {Alt(<<T(<<IF e.abs THEN 36 ELSE 64>>), IF cmp /\ IsSingular(e) THEN ISSegs(e.segs) ELSE ISegs(e.segs)>>)}
    [] e.k = "fn" -> {Alt(<<T(FnNameCP(e.fname) \o <<40>>), SP>>
                           \o Interleave([i \in 1..Len(e.args) |-> <<IEx(e.args[i], FALSE)>>], <<SP, T(<<44>>), SP>>)
                           \o <<SP, T(<<41>>)>>)}
    [] e.k = "lx" -> {Alt(<<ILx(e.lx[1])>>)}

Alternatives(it) ==
  CASE it.k = "S"    -> {Alt(<<>>)} \cup (IF Can /\ blanks < MaxBlanks THEN {[Alt(<<T(<<c>>)>>) EXCEPT !.db = 1] : c \in BlankChars} ELSE {})
    [] it.k = "segs" -> IF it.segs = <<>> THEN {Alt(<<>>)} ELSE {Alt(<<SP, ISeg(it.segs[1]), ISegs(Tail(it.segs))>>)}
    [] it.k = "ssegs" -> IF it.segs = <<>> THEN {Alt(<<>>)}
                         ELSE {[a EXCEPT !.items = <<SP>> \o a.items \o <<ISSegs(Tail(it.segs))>>] : a \in SSegAlts(it.segs[1])}
    [] it.k = "seg"  -> SegAlts(it.segs[1])
    [] it.k = "sel"  -> SelItems(it.sels[1])
    [] it.k = "str"  -> {Alt(<<T(<<39>>), IChs(it.cps, 39), T(<<39>>)>>)}
                        \cup (IF Can THEN {Styled(Alt(<<T(<<34>>), IChs(it.cps, 34), T(<<34>>)>>))} ELSE {})
    [] it.k = "chs"  -> IF it.cps = <<>> THEN {Alt(<<>>)}
                        ELSE LET c == it.cps[1]  rest == IChs(Tail(it.cps), it.n) IN
                             {Alt(<<T(s), rest>>) : s \in FreeSpellings(c, it.n)}
                             \cup (IF Can /\ escs < MaxEscs THEN {[Alt(<<T(s), rest>>) EXCEPT !.de = 1] : s \in PaidSpellings(c, it.n)} ELSE {})
    [] it.k = "lx"   -> LxAlts(it.xs[1])
    [] it.k = "ex"   -> ExAlts(it.es[1], it.b)

(* ---------- the machine --------------------------------------------------------------- *)
\* pops leading terminals into the output
RECURSIVE Flush(_, _)
Flush(st, o) == IF st # <<>> /\ st[1].k = "T" THEN Flush(Tail(st), o \o st[1].cps) ELSE <<st, o>>

Init == /\ ai \in 1..Len(Asts) /\ PickAst(ai)
        /\ stack = <<ISegs(ast)>> /\ out = <<36>>
        /\ blanks = 0 /\ escs = 0 /\ parens = 0 /\ numalt = 0 /\ style = 0 /\ phase = "gen"

Derive == /\ phase = "gen" /\ stack # <<>>
          /\ \E a \in Alternatives(stack[1]) :
               LET f == Flush(a.items \o Tail(stack), out) IN
               /\ stack' = f[1] /\ out' = f[2]
               /\ blanks' = blanks + a.db /\ escs' = escs + a.de /\ parens' = parens + a.dp /\ numalt' = numalt + a.dn /\ style' = style + a.ds
          /\ UNCHANGED <<ai, phase>>
Complete == /\ phase = "gen" /\ stack = <<>>
            /\ phase' = "done"
            /\ UNCHANGED <<ai, stack, out, blanks, escs, parens, numalt, style>>

\* C07: one edit of a complete, un-mutated sentence
DeleteAt(s, k) == SubSeq(s, 1, k - 1) \o SubSeq(s, k + 1, Len(s))
InsertAt(s, k, c) == SubSeq(s, 1, k - 1) \o <<c>> \o SubSeq(s, k, Len(s))
Mutate == /\ phase = "done" /\ Mutations /\ Used <= MutBase
          /\ \/ \E k \in 1..Len(out) : out' = DeleteAt(out, k)
             \/ \E k \in 1..(Len(out) + 1) : \E c \in MutAlphabet : out' = InsertAt(out, k, c)
             \/ \E k \in 1..Len(out) : \E c \in MutAlphabet : c # out[k] /\ out' = [out EXCEPT ![k] = c]
             \/ \E k \in 1..(Len(out) - 1) : out[k] # out[k + 1] /\ out' = [out EXCEPT ![k] = out[k + 1], ![k + 1] = out[k]]
          /\ phase' = "mut"
          /\ UNCHANGED <<ai, stack, blanks, escs, parens, numalt, style>>

Next == Derive \/ Complete \/ Mutate
Spec == Init /\ [][Next]_vars

(* ---------- invariants (consistency of generator and recogniser) ------------------------ *)
WT == WellTyped(ast)
\* every fault-free derivation of a well-typed AST is a valid string for the recogniser
GenSound == (phase = "done" /\ WT) => Verdict(out) = "valid"
\* ... and an ill-typed AST never yields a valid string
GenSoundNeg == (phase = "done" /\ ~WT) => Verdict(out) # "valid"
\* every spelling of one query denotes the same nodelist (C13 on the specification side)
SpellingSame == (phase = "done" /\ WT) =>
                   \A d \in 1..Len(ProbeDocs) : Denote(ParseAst(out), ProbeDocs[d]) = Denote(ast, ProbeDocs[d])
\* without number re-spellings and redundant parentheses the string parses back to the very same AST
RoundTrip == (phase = "done" /\ numalt = 0 /\ parens = 0 /\ WT) => ParseAst(out) = ast

(* ---------- export ------------------------------------------------------------------------ *)
Done == phase \in {"done", "mut"}
Rec == [id |-> <<ai, blanks, escs, parens, numalt, style>>, kind |-> phase, q |-> out, verdict |-> Verdict(out),
        docs |-> IF ExportDocs /\ phase = "done" /\ WT
                 THEN [d \in 1..Len(ProbeDocs) |-> [doc |-> ProbeDocs[d], expect |-> Denote(ast, ProbeDocs[d]),
                                                  sm |-> IF DenoteSM(ast, ProbeDocs[d]) # Denote(ast, ProbeDocs[d]) THEN <<DenoteSM(ast, ProbeDocs[d])>> ELSE <<>>]] ELSE <<>>]
Export == Done => PrintT(<<"REPLAY", ToJson(Rec)>>)
=============================================================================
