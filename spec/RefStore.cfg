INIT Init
NEXT Next
INVARIANTS LastWriteFrame DanglingIsNoop PathsInjective Export
CHECK_DEADLOCK FALSE
