SPECIFICATION LSpec
INVARIANTS LExport
CHECK_DEADLOCK FALSE
