INIT Init
NEXT Next
