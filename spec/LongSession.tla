---------------------------- MODULE LongSession ----------------------------
(***************************************************************************)
(* C12, long histories: ONE thread performs thousands of operations drawn  *)
(* from the alphabet of Session.tla (evaluations through all entry points, *)
(* on several documents, with writes in between).  Explored with           *)
(* `tlc -simulate`: each simulated behaviour is one long history, exported *)
(* when it is complete and replayed sequentially in one process against    *)
(* long-lived parsed queries and documents.  This is where state that      *)
(* leaks from one evaluation into a later one (caches with eviction bugs,  *)
(* counters that are not restored) becomes visible.                        *)
(***************************************************************************)
EXTENDS Session

HLen == IF Thorough THEN 8000 ELSE 4000

LInit == /\ prog = << <<>>, <<>> >> /\ ip = <<1, 1>> /\ pc = <<"idle", "idle">> /\ docs = Docs0 /\ hist = <<>>
LEval(op) == /\ op.k = "eval"
             /\ LET r == Result(op) IN
                hist' = Append(hist, [EvBlank EXCEPT !.ev = "return", !.t = 1, !.op = op, !.locs = r.locs, !.paths = r.paths])
             /\ UNCHANGED <<prog, pc, docs>>
LBad(op) == /\ op.k = "bad"
            /\ hist' = Append(hist, [EvBlank EXCEPT !.ev = "error", !.t = 1, !.op = op])
            /\ UNCHANGED <<prog, pc, docs>>
LWrite(op) == /\ op.k = "write"
              /\ LET ex == Exists(docs[op.d], op.loc) IN
                 /\ docs' = IF ex THEN [docs EXCEPT ![op.d] = ReplaceAt(docs[op.d], op.loc, op.v)] ELSE docs
                 /\ hist' = Append(hist, [EvBlank EXCEPT !.ev = "write", !.t = 1, !.op = op, !.applied = ex, !.wpath = NormalizedPath(op.loc)])
              /\ UNCHANGED <<prog, pc>>
\* one successor per step: the NEXT operation is drawn (TLC!RandomElement, seeded by -seed) into the variable ip,
\* which this machine uses as its random tape <<operation, keep-a-write?>>; writes are kept 1 time in 8
EvalOps == FilterSeq(Ops, LAMBDA o : o.k # "write")
LNext == /\ Len(hist) < HLen
         /\ LET o == ip[1]
                op == IF Ops[o].k # "write" \/ ip[2] = 1 THEN Ops[o] ELSE EvalOps[(o % Len(EvalOps)) + 1]
            IN LEval(op) \/ LWrite(op) \/ LBad(op)
         /\ ip' = <<RandomElement(1..Len(Ops)), RandomElement(1..8)>>
LSpec == LInit /\ [][LNext]_vars
LExport == Len(hist) = HLen => PrintT(<<"REPLAY", ToJson([mode |-> "session", id |-> <<"long", Len(hist)>>, docs |-> Docs0,
                                                        queries |-> AllQueryStrings, valid |-> Len(SQ), hist |-> hist])>>)
=============================================================================
