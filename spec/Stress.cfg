INIT Init
NEXT Next
INVARIANT OneResultPerRow
CHECK_DEADLOCK FALSE
