SPECIFICATION Spec
INVARIANTS EmittedInRange EmittedIsDeclarative IterationsBounded NoOverflow
PROPERTIES Terminates
CHECK_DEADLOCK FALSE
