INIT Init
NEXT Next
