INIT Init
NEXT Next
INVARIANTS TypeOK SmallStepIsDenotation Export
CHECK_DEADLOCK FALSE
