---------------------------- MODULE ShortStrings ----------------------------
(***************************************************************************)
(* C06/C07, exhaustively for short strings: EVERY string of length <= L    *)
(* over a 17-symbol alphabet is built symbol by symbol, judged by the      *)
(* recogniser JPParse (valid / invalid / unscoped) and exported; the       *)
(* parser must accept exactly the valid ones.  Complements the mutation    *)
(* closure of Grammar.tla, which stays near real sentences.                *)
(***************************************************************************)
EXTENDS JPParse, TLC, Json, IOUtils

Tier == IF "VERIF_TIER" \in DOMAIN IOEnv THEN IOEnv.VERIF_TIER ELSE "quick"
L == IF Tier = "thorough" THEN 5 ELSE 4
\* $ @ . [ ] * ? : , ' " - ! 0 1 a SP
Alphabet == {36, 64, 46, 91, 93, 42, 63, 58, 44, 39, 34, 45, 33, 48, 49, 97, 32}

VARIABLE s
Init == s = <<>>
Next == Len(s) < L /\ \E c \in Alphabet : s' = Append(s, c)
Spec == Init /\ [][Next]_s

\* only strings that start with "$" can be valid; the others are exported only up to length 2 (they are all invalid)
Interesting == Len(s) >= 1 /\ (s[1] = 36 \/ Len(s) <= 2)
Export == Interesting => PrintT(<<"REPLAY", ToJson([id |-> s, kind |-> "short", q |-> s, verdict |-> Verdict(s), docs |-> <<>>])>>)
\* sanity of the recogniser on this universe: the empty tail of "$" is valid, nothing else of length 1 is
Sanity == (Len(s) = 1) => ((Verdict(s) = "valid") <=> (s = <<36>>))
=============================================================================
