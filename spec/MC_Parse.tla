---- MODULE MC_Parse ----
(* Consistency of the two grammar formulations on the evaluator universes: parse(render(ast)) = ast. *)
EXTENDS JPParse, Universes, TLC
S(str) == str
RoundTrip(qs) == \A n \in 1..Len(qs) : LET r == RenderQuery(qs[n]) IN
                    /\ Verdict(r) \in {"valid", "unscoped"}
                    /\ ParseAst(r) = qs[n]
ASSUME PrintT(<<"C01", RoundTrip(C01Queries)>>)
ASSUME PrintT(<<"C11", RoundTrip(C11Queries)>>)
ASSUME PrintT(<<"C03", RoundTrip(C03Queries)>>)
ASSUME PrintT(<<"C04", RoundTrip(C04Queries)>>)
ASSUME PrintT(<<"C05", RoundTrip(C05Queries)>>)
ASSUME PrintT(<<"C10", RoundTrip(C10Queries)>>)
ASSUME PrintT(<<"C14", RoundTrip(C14Queries)>>)
VARIABLE x
Init == x = 0
Next == UNCHANGED x
====
