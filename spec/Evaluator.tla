----------------------------- MODULE Evaluator -----------------------------
(***************************************************************************)
(* The evaluation machine, shaped like the implementation                  *)
(* (jp_query.rs fold / segment.rs descendant expansion / state.rs          *)
(* flat_map), not like the RFC prose: one action per step of the fold.     *)
(* Its invariants tie the small-step machine to the big-step denotation    *)
(* of JPSemantics and state C01/C02/C03/C12 on every reachable state.      *)
(* A finished behaviour is exported as one REPLAY line for the harness.    *)
(***************************************************************************)
EXTENDS Universes, TLC, Json

VARIABLES di, qi, si, phase, expanded, inp, j, outp
vars == <<di, qi, si, phase, expanded, inp, j, outp>>

doc == Docs[di]
query == Queries[qi]

Init == /\ di \in 1..Len(Docs) /\ qi \in 1..Len(Queries) /\ Pick(di, qi)
        /\ si = 1 /\ phase = "run" /\ expanded = FALSE
        /\ inp = <<Root>> /\ j = 1 /\ outp = <<>>

Running == phase = "run" /\ si <= Len(query)
seg == query[si]

\* segment.rs:27-52  descendants-or-self of every input node, pre-order
Expand == /\ Running /\ seg.desc /\ ~expanded
          /\ inp' = SegInput(seg, doc, inp)
          /\ expanded' = TRUE
          /\ UNCHANGED <<di, qi, si, phase, j, outp>>

\* state.rs flat_map: the selectors of the segment applied to ONE input node
SelectNode == /\ Running /\ (seg.desc => expanded) /\ j <= Len(inp)
              /\ outp' = outp \o ApplySels(seg.sels, doc, inp[j])
              /\ j' = j + 1
              /\ UNCHANGED <<di, qi, si, phase, expanded, inp>>

\* jp_query.rs fold: the output of a segment is the input of the next
NextSegment == /\ Running /\ (seg.desc => expanded) /\ j > Len(inp)
               /\ inp' = outp /\ outp' = <<>> /\ j' = 1 /\ si' = si + 1 /\ expanded' = FALSE
               /\ UNCHANGED <<di, qi, phase>>

\* query.rs:71-81  the final nodelist is the result
Finish == /\ phase = "run" /\ si > Len(query)
          /\ phase' = "done"
          /\ UNCHANGED <<di, qi, si, expanded, inp, j, outp>>

Next == Expand \/ SelectNode \/ NextSegment \/ Finish
Spec == Init /\ [][Next]_vars /\ WF_vars(Next)

(* ---------- invariants --------------------------------------------------- *)
TypeOK == /\ si \in 1..(Len(query) + 1) /\ phase \in {"run", "done"} /\ j \in 1..(Len(inp) + 1)

\* C01: every node flowing through the machine is a location of the caller's document
NodesAreLocations == /\ \A n \in 1..Len(inp) : Exists(doc, inp[n])
                     /\ \A n \in 1..Len(outp) : Exists(doc, outp[n])

\* C01/C02: the machine computes the denotation (same sequence)
SmallStepIsDenotation == phase = "done" => inp = Denote(query, doc)

\* the prefix property behind it: after k segments the input is the denotation of the k-prefix
PrefixDenotation == (phase = "run" /\ j = 1 /\ ~expanded) => inp = Denote(SubSeq(query, 1, si - 1), doc)

\* C02 pre-order: after Expand a node precedes its descendants, array children in index order
PreOrder == (Running /\ expanded /\ si = 1) =>
              \A a, b \in 1..Len(inp) :
                 (a < b /\ IsPrefixLoc(inp[b], inp[a])) => inp[a] = inp[b]

\* C03: Normalized Paths identify nodes and round-trip
PathRoundTrip == phase = "done" =>
   /\ \A n \in 1..Len(inp) : Denote(PathAsQuery(inp[n]), doc) = <<inp[n]>>
   /\ \A a, b \in 1..Len(inp) : (NormalizedPath(inp[a]) = NormalizedPath(inp[b])) <=> (inp[a] = inp[b])

\* deviation D1 differs from the RFC only when a segment has >= 2 selectors and >= 2 input nodes
MultiMulti == \E s \in 1..Len(query) :
                 Len(query[s].sels) >= 2 /\
                 Len(SegInput(query[s], doc, Denote(SubSeq(query, 1, s - 1), doc))) >= 2
SMOnlyThere == phase = "done" => (DenoteSM(query, doc) # inp => MultiMulti)

(* ---------- action properties -------------------------------------------- *)
\* C02 input-major: output of an earlier input node is never after that of a later one
InputMajorOrder == [][ (outp' # outp /\ inp' = inp) =>
                          /\ SubSeq(outp', 1, Len(outp)) = outp
                          /\ LET x == SubSeq(outp', Len(outp) + 1, Len(outp')) IN
                               x = ApplySels(seg.sels, doc, inp[j]) ]_vars
\* C01 child depth: SelectNode appends only children of the input node it consumed
ChildDepth == [][ (outp' # outp /\ inp' = inp) =>
                    \A n \in (Len(outp) + 1)..Len(outp') :
                       Len(outp'[n]) = Len(inp[j]) + 1 /\ IsPrefixLoc(inp[j], outp'[n]) ]_vars
\* C12: evaluation never changes the document or the query
DocUnchanged == [][di' = di /\ qi' = qi]_vars
\* C08: evaluation of a parsed query always terminates
Terminates == <>(phase = "done")

(* ---------- export ------------------------------------------------------- *)
ReplayRecord ==
  [id     |-> <<di, qi>>,
   mode   |-> Mode,
   q      |-> RenderQuery(query),
   ast    |-> query,
   doc    |-> doc,
   expect |-> inp,
   sm     |-> IF MultiMulti THEN <<DenoteSM(query, doc)>> ELSE <<>>,
   paths  |-> IF Mode = "paths" THEN LET ls == Locs(doc) IN [n \in 1..Len(ls) |-> [loc |-> ls[n], np |-> NormalizedPath(ls[n])]]
              ELSE <<>>]
Export == phase = "done" => PrintT(<<"REPLAY", ToJson(ReplayRecord)>>)
=============================================================================
