------------------------------ MODULE RefStore ------------------------------
(***************************************************************************)
(* C09: a document that changes only by writes through paths.              *)
(*   Reference(p)  returns the node at the location p denotes, or NONE     *)
(*   Write(p, v)   is effective iff that location exists and replaces      *)
(*                 exactly that node                                       *)
(* Histories: up to MaxOps operations whose paths were all obtained from   *)
(* ONE earlier query on the initial document (so later paths may dangle    *)
(* after an earlier write replaced a container), plus paths to locations   *)
(* that never existed.  Every complete history is exported and replayed    *)
(* against Queryable::reference / reference_mut.                           *)
(***************************************************************************)
EXTENDS Universes, TLC, Json

\* ---- universe -------------------------------------------------------------
R9Names == <<cA, <<97, 47, 98>>, <<97, 126, 98>>, <<126, 49>>, <<48>>, <<49>>, <<>>, <<97, 32, 98>>, <<47>>, <<126>>, <<126, 48>>, <<233>>, <<127>>, <<133, 97>>, <<233, 1>>, <<128512, 233, 10, 97>>, <<93, 46, 91>>, <<99, 91, 48, 93, 46, 91, 49, 93>>, <<91, 42, 93>>, <<97, 91, 63, 98, 93>>, <<36, 46, 105, 91, 42, 93, 46, 105, 100>>, <<1048576, 97>>, <<1114111>>, <<65536>>, <<34, 120, 34>>>>
R9NamesT == R9Names \o << <<39>>, <<97, 39, 98>>, <<92>>, <<34>>, <<10>>, <<45, 49>>, <<91, 48, 93>> >>
R9N == IF Thorough THEN R9NamesT ELSE R9Names
R9Leaf == <<JInt(1), JStr(cA), JArr(<<JInt(1), JInt(2)>>), JObj(<<cA>>, <<JInt(1)>>)>>
\* every name at depth 1 (next to a plain member) and at depth 2; arrays of length <= 2; the name/index conflation cases
R9Docs == FlattenSeq([i \in 1..Len(R9N) |->
            << JObj(<<R9N[i]>>, <<R9Leaf[(i % 4) + 1]>>),
               JObj(<<cX>>, <<JObj(<<R9N[i]>>, <<JArr(<<JInt(7), JObj(<<R9N[i]>>, <<JInt(8)>>)>>)>>)>>) >>])
          \o << JArr(<<JInt(1), JArr(<<JInt(2), JInt(3)>>), JObj(<<<<49>>>>, <<JInt(4)>>)>>),
                JObj(<<<<48>>, <<49>>>>, <<JArr(<<JInt(5), JInt(6)>>), JInt(7)>>),
                JObj(<<cA, <<97, 47, 98>>>>, <<JObj(<<cB>>, <<JInt(2)>>), JInt(1)>>),          \* "a/b" next to a.b
                JObj(<<<<97, 47, 98>>, <<97, 126, 49, 98>>>>, <<JInt(2), JInt(1)>>),          \* "a~1b" next to "a/b"
                JObj(<<<<97, 32, 98>>, <<97, 98>>, <<32, 97, 98>>>>, <<JInt(1), JInt(2), JInt(3)>>),   \* "a b", "ab", " ab": differ only by blanks (sorted: " ab" first)
                JInt(5), JArr(<<>>) >>
R9Vals == <<JStr(<<87>>), JArr(<<>>), JObj(<<cN>>, <<JInt(1)>>)>>
\* locations that do not exist in d: missing name, index = len, name step on an array, index step on an object
Dangling(d) ==
  LET ls == Locs(d) IN
  FlattenSeq([n \in 1..Len(ls) |->
     LET v == Lookup(d, ls[n]) IN
     CASE v.t = "arr" -> << Append(ls[n], IdxStep(Len(v.kids))), Append(ls[n], NameStep(<<48>>)), Append(ls[n], NameStep(<<49>>)) >>
       [] v.t = "obj" -> << Append(ls[n], NameStep(<<122, 122>>)), Append(ls[n], IdxStep(0)), Append(ls[n], IdxStep(1)) >>
       [] OTHER -> << Append(ls[n], IdxStep(0)), Append(ls[n], NameStep(cA)) >> ])

\* Normalized Paths (as text) of locations no document of this universe has: indexes far beyond every array (also beyond
\* 32- and 64-bit machine integers, which TLC's own integers cannot hold - hence strings)
FarPaths == << <<36, 91, 52, 50, 57, 52, 57, 54, 55, 50, 57, 54, 93>>,
              <<36, 91, 52, 50, 57, 52, 57, 54, 55, 50, 57, 55, 93>>,
              <<36, 91, 52, 50, 57, 52, 57, 54, 55, 50, 57, 56, 93>>,
              <<36, 91, 49, 56, 52, 52, 54, 55, 52, 52, 48, 55, 51, 55, 48, 57, 53, 53, 49, 54, 49, 55, 93>>,
              <<36, 91, 49, 93, 91, 52, 50, 57, 52, 57, 54, 55, 50, 57, 54, 93>>,
              <<36, 91, 49, 93, 91, 52, 50, 57, 52, 57, 54, 55, 50, 57, 55, 93>>,
              <<36, 91, 50, 93, 91, 39, 49, 39, 93, 91, 52, 50, 57, 52, 57, 54, 55, 50, 57, 54, 93>>,
              <<36, 91, 39, 48, 39, 93, 91, 52, 50, 57, 52, 57, 54, 55, 50, 57, 55, 93>>,
              <<36, 91, 50, 49, 52, 55, 52, 56, 51, 54, 52, 56, 93>>,
              <<36, 91, 54, 53, 53, 51, 54, 93>>,
              <<36, 91, 50, 53, 54, 93>> >>
MaxOps == IF Thorough THEN 3 ELSE 2

VARIABLES di, doc, ops, phase, paths
vars == <<di, doc, ops, phase, paths>>
doc0 == R9Docs[di]

\* paths: obtained once, from the INITIAL document (a state variable only so that TLC computes it once)
Init == /\ di \in 1..Len(R9Docs) /\ doc = R9Docs[di] /\ ops = <<>> /\ phase = "run"
        /\ paths = Locs(R9Docs[di]) \o Dangling(R9Docs[di])

OpRec(kind, loc, v, ex, after) == [op |-> kind, loc |-> loc, path |-> NormalizedPath(loc), exists |-> ex,
                                   value |-> v, after |-> after]

Reference(n) == /\ phase = "run" /\ Len(ops) < MaxOps
                /\ LET loc == paths[n] IN
                   ops' = Append(ops, OpRec("ref", loc, JNull, Exists(doc, loc), doc))
                /\ UNCHANGED <<di, doc, phase, paths>>

Write(n, vi) == /\ phase = "run" /\ Len(ops) < MaxOps
                /\ LET loc == paths[n]
                       ex == Exists(doc, loc)
                       nd == IF ex THEN ReplaceAt(doc, loc, R9Vals[vi]) ELSE doc
                   IN /\ doc' = nd
                      /\ ops' = Append(ops, OpRec("write", loc, R9Vals[vi], ex, nd))
                /\ UNCHANGED <<di, phase, paths>>

\* reading (or trying to write) through a far path finds nothing and changes nothing
FarRef(k) == /\ phase = "run" /\ Len(ops) < MaxOps
             /\ ops' = Append(ops, [op |-> "far", loc |-> <<>>, path |-> FarPaths[k], exists |-> FALSE, value |-> R9Vals[1], after |-> doc])
             /\ UNCHANGED <<di, doc, phase, paths>>

Finish == /\ phase = "run" /\ Len(ops) >= 1
          /\ phase' = "done" /\ UNCHANGED <<di, doc, ops, paths>>

\* quick tier: the first operation ranges over all paths, later ones over a seeded sample
IsDeep == FALSE                             \* (deep documents are fed back through the Evaluator universe C01D instead)
Sample(n) == \/ Len(ops) = 0
             \/ Len(ops) = 1 /\ ~IsDeep /\ ((n * 7 + Seed) % (IF Thorough THEN 4 ELSE 3) = 0)
             \/ Len(ops) = 2 /\ ~IsDeep /\ ((n * 5 + Seed) % 16 = 0)
\* on the deep document only every 12th path is used (and the deepest ones), one value per write
DeepPick(n) == ~IsDeep \/ n % 12 = 0 \/ n > Len(paths) - 6
Next == \/ \E n \in 1..Len(paths) : Sample(n) /\ DeepPick(n) /\ Reference(n)
        \/ \E n \in 1..Len(paths) : Sample(n) /\ DeepPick(n) /\ \E vi \in 1..Len(R9Vals) : ((Len(ops) = 0 /\ ~IsDeep) \/ vi = 1 + ((n + Seed) % 3)) /\ Write(n, vi)
        \/ \E k \in 1..Len(FarPaths) : (Len(ops) = 0 \/ (k + di + Seed) % 4 = 0) /\ FarRef(k)
        \/ Finish
Spec == Init /\ [][Next]_vars

(* ---------- invariants: what "changes that node and nothing else" means ------------------ *)
\* frame condition of the last write: every location that is not the written one, below it or above it keeps its value
LastWriteFrame ==
  (ops # <<>> /\ ops[Len(ops)].op = "write" /\ ops[Len(ops)].exists) =>
    LET o == ops[Len(ops)]
        before == IF Len(ops) = 1 THEN doc0 ELSE ops[Len(ops) - 1].after
        ls == Locs(before)
    IN /\ Lookup(doc, o.loc) = o.value
       /\ \A n \in 1..Len(ls) :
            (~IsPrefixLoc(o.loc, ls[n]) /\ ~IsPrefixLoc(ls[n], o.loc)) =>
               (Exists(doc, ls[n]) /\ Lookup(doc, ls[n]) = Lookup(before, ls[n]))
       /\ \A n \in 1..Len(ls) :           \* ancestors keep their kind, size and member names
            (IsPrefixLoc(ls[n], o.loc) /\ ls[n] # o.loc) =>
               LET a == Lookup(doc, ls[n])  b == Lookup(before, ls[n])
               IN a.t = b.t /\ a.keys = b.keys /\ Len(a.kids) = Len(b.kids)
\* a dangling path never changes anything
DanglingIsNoop == \A n \in 1..Len(ops) : ~ops[n].exists =>
                    ops[n].after = (IF n = 1 THEN doc0 ELSE ops[n - 1].after)
\* Normalized Paths name locations uniquely
PathsInjective == \A a, b \in 1..Len(paths) : NormalizedPath(paths[a]) = NormalizedPath(paths[b]) => paths[a] = paths[b]

Export == phase = "done" => PrintT(<<"REPLAY", ToJson([id |-> <<di, Len(ops)>>, mode |-> "refstore", doc |-> doc0, ops |-> ops])>>)
=============================================================================
