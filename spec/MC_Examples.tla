---- MODULE MC_Examples ----
EXTENDS RFCExamples, TLC
VARIABLE x
Init == x = 0
Next == UNCHANGED x
====
