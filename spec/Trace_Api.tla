----------------------------- MODULE Trace_Api -----------------------------
(***************************************************************************)
(* impl -> spec: validates a recorded call/return trace of the worker      *)
(* against the Api machine.  Every event must be a step the specification  *)
(* allows; an event that is not (a return the validity of the string does  *)
(* not permit, a panic, a crash or timeout event synthesised by the parent *)
(* for a call that never returned) is collected and reported, and the rest *)
(* of the trace is still checked.                                          *)
(***************************************************************************)
EXTENDS JPParse, TLC, Json, IOUtils

Rec == ndJsonDeserialize(IOEnv.TRACE)

VARIABLES l, pc, ent, vd, cid
vars == <<l, pc, ent, vd, cid>>

Init == l = 1 /\ pc = "idle" /\ ent = "" /\ vd = "" /\ cid = <<>>

E == Rec[l]
Has(f) == f \in DOMAIN E
\* the verdict comes with the event when TLC computed it at export time, otherwise the recogniser decides now
VerdictOf(e) == IF "verdict" \in DOMAIN e THEN e.verdict ELSE Verdict(e.q)

CallOk == l <= Len(Rec) /\ E.ev = "call" /\ pc = "idle"
RefEntries == {"reference", "reference_mut"}
RetOkOk == l <= Len(Rec) /\ E.ev = "return" /\ pc = "inCall" /\ E.entry = ent /\ E.id = cid
           /\ ent \notin RefEntries /\ E.outcome = "ok" /\ vd \in {"valid", "unscoped"}
RetErrOk == l <= Len(Rec) /\ E.ev = "return" /\ pc = "inCall" /\ E.entry = ent /\ E.id = cid
            /\ ent \notin RefEntries /\ E.outcome = "err" /\ ent # "js_path_process" /\ vd \in {"invalid", "unscoped"}
\* Api!ReturnRef: Some or None, for every string
RetRefOk == l <= Len(Rec) /\ E.ev = "return" /\ pc = "inCall" /\ E.entry = ent /\ E.id = cid
            /\ ent \in RefEntries /\ E.outcome \in {"some", "none"}

TCall == /\ CallOk
         /\ pc' = "inCall" /\ ent' = E.entry /\ cid' = E.id
         /\ vd' = (IF Has("q") \/ Has("verdict") THEN VerdictOf(E) ELSE vd)
         /\ l' = l + 1
TReturn == /\ (RetOkOk \/ RetErrOk \/ RetRefOk)
           /\ pc' = "idle" /\ l' = l + 1 /\ UNCHANGED <<ent, vd, cid>>
\* anything else is not a behaviour of Api: record it, resynchronise, go on
TMismatch == /\ l <= Len(Rec) /\ ~CallOk /\ ~RetOkOk /\ ~RetErrOk /\ ~RetRefOk
             /\ TLCSet(1, Append(TLCGet(1), [line |-> l, event |-> E, expected_verdict |-> vd, in_call |-> pc = "inCall", entry |-> ent]))
             /\ pc' = "idle" /\ l' = l + 1 /\ UNCHANGED <<ent, vd, cid>>
Next == TCall \/ TReturn \/ TMismatch
Spec == TLCSet(1, <<>>) /\ Init /\ [][Next]_vars

Post == /\ \A n \in 1..Len(TLCGet(1)) : PrintT(<<"MISMATCH", ToJson(TLCGet(1)[n])>>)
        /\ PrintT(<<"TRACE-SUMMARY", ToJson([events |-> Len(Rec), mismatches |-> Len(TLCGet(1)), consumed |-> TLCGet("stats").diameter - 1])>>)
=============================================================================
