---------------------------- MODULE SliceProofs ----------------------------
(***************************************************************************)
(* TLAPS lemmas, for ALL integers, behind the two places where the model   *)
(* checker only sees a window:                                             *)
(*  - the BIG abstraction (DESIGN 3.1): a slice bound beyond the array     *)
(*    length saturates, so every integer has a representative inside the   *)
(*    window [-(len+1), len+1] with the same clamped value; a step larger  *)
(*    than the length selects exactly one element (if any);                *)
(*  - termination and range of the slice loop (SliceLoop.tla): the clamped *)
(*    bounds lie in the array, the loop variant strictly decreases.        *)
(* Checked with: tlapm --threads 8 SliceProofs.tla                         *)
(***************************************************************************)
EXTENDS Integers, TLAPS

Min2(a, b) == IF a <= b THEN a ELSE b
Max2(a, b) == IF a >= b THEN a ELSE b
Norm(i, len) == IF i >= 0 THEN i ELSE len + i
\* RFC 9535 2.3.4.2.2 bounds for a positive step
ClampUp(b, len) == Min2(Max2(Norm(b, len), 0), len)
\* ... and for a negative step
ClampDown(b, len) == Min2(Max2(Norm(b, len), 0 - 1), len - 1)

LEMMA ClampUpInRange == \A len \in Nat, b \in Int : ClampUp(b, len) \in 0..len
  BY DEF ClampUp, Min2, Max2, Norm

LEMMA ClampDownInRange == \A len \in Nat, b \in Int : ClampDown(b, len) \in (0 - 1)..(len - 1)
  BY DEF ClampDown, Min2, Max2, Norm

\* every bound at or beyond len behaves like len; every bound at or below -len like -len (positive step)
LEMMA BoundSaturatesUp ==
  \A len \in Nat, b \in Int :
     /\ b >= len => ClampUp(b, len) = len
     /\ b <= 0 - len => ClampUp(b, len) = 0
  BY DEF ClampUp, Min2, Max2, Norm

\* ... and for a negative step: beyond len-1 behaves like len-1, at or below -len-1 like -1
LEMMA BoundSaturatesDown ==
  \A len \in Nat, b \in Int :
     /\ b >= len - 1 => ClampDown(b, len) = len - 1
     /\ b <= 0 - len - 1 => ClampDown(b, len) = 0 - 1
  BY DEF ClampDown, Min2, Max2, Norm

\* consequently any two integers beyond the window are interchangeable
LEMMA RepresentativeUp ==
  \A len \in Nat, b, c \in Int :
     ((b >= len /\ c >= len) \/ (b <= 0 - len /\ c <= 0 - len)) => ClampUp(b, len) = ClampUp(c, len)
  BY BoundSaturatesUp

LEMMA RepresentativeDown ==
  \A len \in Nat, b, c \in Int :
     ((b >= len - 1 /\ c >= len - 1) \/ (b <= 0 - len - 1 /\ c <= 0 - len - 1)) => ClampDown(b, len) = ClampDown(c, len)
  BY BoundSaturatesDown

\* a step of magnitude >= len selects at most the first index of the window: lower + step is already >= upper
LEMMA StepSaturates ==
  \A len \in Nat, lower, upper, step \in Int :
     (lower \in 0..len /\ upper \in 0..len /\ step >= len /\ step > 0) => lower + step >= upper
  OBVIOUS

LEMMA StepSaturatesDown ==
  \A len \in Nat, lower, upper, step \in Int :
     (lower \in (0 - 1)..(len - 1) /\ upper \in (0 - 1)..(len - 1) /\ step <= 0 - len /\ step < 0) => upper + step <= lower
  OBVIOUS

\* the loop "while idx < upper: idx += step" (step > 0): variant upper - idx decreases and idx stays >= lower
LEMMA VariantUp ==
  \A idx, upper, step \in Int : (idx < upper /\ step > 0) => (upper - (idx + step) < upper - idx /\ upper - idx > 0)
  OBVIOUS
LEMMA VariantDown ==
  \A idx, lower, step \in Int : (lower < idx /\ step < 0) => ((idx + step) - lower < idx - lower /\ idx - lower > 0)
  OBVIOUS
\* every emitted index is a valid array index
LEMMA EmittedInRangeUp ==
  \A len \in Nat, b1, b2, idx \in Int :
     (ClampUp(b1, len) <= idx /\ idx < ClampUp(b2, len)) => (0 <= idx /\ idx < len)
  BY ClampUpInRange
LEMMA EmittedInRangeDown ==
  \A len \in Nat, b1, b2, idx \in Int :
     (ClampDown(b2, len) < idx /\ idx <= ClampDown(b1, len)) => (0 <= idx /\ idx < len)
  BY ClampDownInRange
\* index selector: i and len+i name the same element; out of range exactly outside [-len, len-1]
LEMMA IndexInRange ==
  \A len \in Nat, i \in Int : (0 <= Norm(i, len) /\ Norm(i, len) < len) <=> (0 - len <= i /\ i < len)
  BY DEF Norm
=============================================================================
