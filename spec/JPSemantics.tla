---------------------------- MODULE JPSemantics ----------------------------
(***************************************************************************)
(* RFC 9535 semantics, big-step: selectors, segments, filter logic, the    *)
(* comparison table, function extensions, Normalized Paths.  Every other   *)
(* module (evaluation machine, generators, trace validators) uses these    *)
(* operators as the single source of truth.                                *)
(***************************************************************************)
EXTENDS JPSyntax, Regex

(* ---------- 2.3.4.2.2 slices, declaratively ------------------------------ *)
SliceNorm(i, len) == IF i >= 0 THEN i ELSE len + i
\* the sequence of selected indices, in selection order
SliceIndices(len, start, end, step) ==
  LET sp == IF step = ABSENT THEN 1 ELSE step IN
  IF sp = 0 THEN <<>>
  ELSE IF sp > 0 THEN
    LET ns == SliceNorm(IF start = ABSENT THEN 0 ELSE start, len)
        ne == SliceNorm(IF end = ABSENT THEN len ELSE end, len)
        lower == Min2(Max2(ns, 0), len)
        upper == Min2(Max2(ne, 0), len)
        \* upper - lower <= len, so no 32-bit overflow even for sp near BIG
        n == IF lower < upper THEN ((upper - lower - 1) \div sp) + 1 ELSE 0
    IN [k \in 1..n |-> lower + (k - 1) * sp]
  ELSE
    LET ns == SliceNorm(IF start = ABSENT THEN len - 1 ELSE start, len)
        ne == SliceNorm(IF end = ABSENT THEN (0 - len) - 1 ELSE end, len)
        upper == Min2(Max2(ns, 0 - 1), len - 1)
        lower == Min2(Max2(ne, 0 - 1), len - 1)
        n == IF lower < upper THEN ((upper - lower - 1) \div (0 - sp)) + 1 ELSE 0
    IN [k \in 1..n |-> upper - (k - 1) * (0 - sp)]

IndexTarget(len, i) == SliceNorm(i, len)        \* valid iff 0 <= result < len

(* ---------- comparison table 2.3.5.2.2 ----------------------------------- *)
CmpEq(a, b) == JEq(a, b)             \* covers NOTHING == NOTHING, NOTHING # value, cross-type false
CmpLt(a, b) == \/ a.t = "num" /\ b.t = "num" /\ NumLt(a, b)
               \/ a.t = "str" /\ b.t = "str" /\ StrLt(a.s, b.s)
Compare(op, a, b) ==
  CASE op = "==" -> CmpEq(a, b)
    [] op = "!=" -> ~CmpEq(a, b)
    [] op = "<"  -> CmpLt(a, b)
    [] op = "<=" -> CmpLt(a, b) \/ CmpEq(a, b)
    [] op = ">"  -> CmpLt(b, a)
    [] op = ">=" -> CmpLt(b, a) \/ CmpEq(a, b)

(* ---------- C14: the documented extension functions ---------------------- *)
MemberOf(x, arr) == \E i \in 1..Len(arr.kids) : JEq(arr.kids[i], x)
ExtFn(name, a, b) ==          \* a, b: values or NOTHING; false whenever an argument is unsuitable
  CASE name = "in"  -> a.t # "nothing" /\ b.t = "arr" /\ MemberOf(a, b)
    [] name = "nin" -> a.t # "nothing" /\ b.t = "arr" /\ ~MemberOf(a, b)
    [] name = "any_of"  -> a.t = "arr" /\ b.t = "arr" /\ \E i \in 1..Len(a.kids) : MemberOf(a.kids[i], b)
    [] name = "none_of" -> a.t = "arr" /\ b.t = "arr" /\ \A i \in 1..Len(a.kids) : ~MemberOf(a.kids[i], b)
    [] name = "subset_of" -> a.t = "arr" /\ b.t = "arr" /\ \A i \in 1..Len(a.kids) : MemberOf(a.kids[i], b)

(* ---------- selectors, segments, filters --------------------------------- *)
RECURSIVE ApplySel(_, _, _), DenoteFrom(_, _, _), EvalLx(_, _, _), EvalValue(_, _, _),
          EvalNodes(_, _, _), TestTruth(_, _, _)

ApplySel(s, doc, loc) ==
  LET v == Lookup(doc, loc) IN
  CASE s.k = "name"  -> IF v.t = "obj" /\ KeyIndex(v, s.n) # 0 THEN <<Append(loc, NameStep(s.n))>> ELSE <<>>
    [] s.k = "wild"  -> ChildLocs(doc, loc)
    [] s.k = "index" -> IF v.t = "arr"
                        THEN LET j == IndexTarget(Len(v.kids), s.i)
                             IN IF 0 <= j /\ j < Len(v.kids) THEN <<Append(loc, IdxStep(j))>> ELSE <<>>
                        ELSE <<>>
    [] s.k = "slice" -> IF v.t = "arr"
                        THEN LET ix == SliceIndices(Len(v.kids), s.st, s.en, s.sp)
                             IN [k \in 1..Len(ix) |-> Append(loc, IdxStep(ix[k]))]
                        ELSE <<>>
    [] s.k = "filter" -> FilterSeq(ChildLocs(doc, loc), LAMBDA c : EvalLx(s.f[1], doc, c))

\* all selectors of one segment applied to ONE input node, in the order written
ApplySels(sels, doc, loc) == FlattenSeq([j \in 1..Len(sels) |-> ApplySel(sels[j], doc, loc)])

SegInput(sg, doc, nodes) ==
  IF sg.desc THEN FlattenSeq([i \in 1..Len(nodes) |-> DescOrSelf(doc, nodes[i])]) ELSE nodes
\* RFC order: input-node major
ApplySeg(sg, doc, nodes) ==
  LET inp == SegInput(sg, doc, nodes)
  IN FlattenSeq([i \in 1..Len(inp) |-> ApplySels(sg.sels, doc, inp[i])])
\* the implementation's named deviation D1 (segment.rs:16-25): selector major
ApplySegSM(sg, doc, nodes) ==
  LET inp == SegInput(sg, doc, nodes)
  IN FlattenSeq([j \in 1..Len(sg.sels) |->
       FlattenSeq([i \in 1..Len(inp) |-> ApplySel(sg.sels[j], doc, inp[i])])])

DenoteFrom(segs, doc, nodes) ==
  IF segs = <<>> THEN nodes ELSE DenoteFrom(Tail(segs), doc, ApplySeg(Head(segs), doc, nodes))
Denote(q, doc) == DenoteFrom(q, doc, <<Root>>)

RECURSIVE DenoteFromSM(_, _, _)
DenoteFromSM(segs, doc, nodes) ==
  IF segs = <<>> THEN nodes ELSE DenoteFromSM(Tail(segs), doc, ApplySegSM(Head(segs), doc, nodes))
DenoteSM(q, doc) == DenoteFromSM(q, doc, <<Root>>)

\* nodelist of a query expression evaluated with @ = cur, $ = root
EvalNodes(e, doc, cur) == DenoteFrom(e.segs, doc, <<IF e.abs THEN Root ELSE cur>>)

FnValue(e, doc, cur) ==
  CASE e.fname = "length" ->
         LET v == EvalValue(e.args[1], doc, cur) IN
         CASE v.t = "str" -> JInt(Len(v.s))
           [] v.t = "arr" -> JInt(Len(v.kids))
           [] v.t = "obj" -> JInt(Len(v.keys))
           [] OTHER -> NOTHING
    [] e.fname = "count" -> JInt(Len(EvalNodes(e.args[1], doc, cur)))
    [] e.fname = "value" -> LET ns == EvalNodes(e.args[1], doc, cur)
                            IN IF Len(ns) = 1 THEN Lookup(doc, ns[1]) ELSE NOTHING

FnLogical(e, doc, cur) ==
  IF e.fname \in {"match", "search"} THEN
    LET s == EvalValue(e.args[1], doc, cur)
        p == EvalValue(e.args[2], doc, cur)
    IN /\ s.t = "str" /\ p.t = "str"
       /\ LET pr == ParseRe(p.s)
          IN pr.ok /\ (IF e.fname = "match" THEN ReMatch(pr.r, s.s) ELSE ReSearch(pr.r, s.s))
  ELSE ExtFn(e.fname, EvalValue(e.args[1], doc, cur), EvalValue(e.args[2], doc, cur))

\* value (or NOTHING) of an expression in ValueType position
EvalValue(e, doc, cur) ==
  CASE e.k = "lit" -> e.v
    [] e.k = "q"   -> LET ns == EvalNodes(e, doc, cur)
                      IN IF Len(ns) = 1 THEN Lookup(doc, ns[1]) ELSE NOTHING
    [] e.k = "fn"  -> FnValue(e, doc, cur)

\* test-expr: a query is true iff it selects at least one node, whatever its value
TestTruth(e, doc, cur) ==
  CASE e.k = "q"  -> Len(EvalNodes(e, doc, cur)) > 0
    [] e.k = "fn" -> FnLogical(e, doc, cur)

EvalLx(x, doc, cur) ==
  CASE x.k = "or"    -> \E i \in 1..Len(x.xs) : EvalLx(x.xs[i], doc, cur)
    [] x.k = "and"   -> \A i \in 1..Len(x.xs) : EvalLx(x.xs[i], doc, cur)
    [] x.k = "paren" -> (EvalLx(x.xs[1], doc, cur) # x.neg)
    [] x.k = "cmp"   -> Compare(x.op, EvalValue(x.es[1], doc, cur), EvalValue(x.es[2], doc, cur))
    [] x.k = "test"  -> (TestTruth(x.es[1], doc, cur) # x.neg)

(* ---------- 2.7 Normalized Paths ------------------------------------------ *)
HexLow(n) == IF n < 10 THEN 48 + n ELSE 87 + n
NPChar(c) ==
  CASE c = 8  -> <<92, 98>>   [] c = 12 -> <<92, 102>> [] c = 10 -> <<92, 110>>
    [] c = 13 -> <<92, 114>>  [] c = 9  -> <<92, 116>>
    [] c = 39 -> <<92, 39>>   [] c = 92 -> <<92, 92>>
    [] c < 32 -> <<92, 117, 48, 48, HexLow(c \div 16), HexLow(c % 16)>>
    [] OTHER  -> <<c>>
NPStep(st) ==
  IF st.k = "i" THEN <<91>> \o DecDigits(st.i) \o <<93>>
  ELSE <<91, 39>> \o FlattenSeq([i \in 1..Len(st.n) |-> NPChar(st.n[i])]) \o <<39, 93>>
NormalizedPath(loc) == <<36>> \o FlattenSeq([i \in 1..Len(loc) |-> NPStep(loc[i])])
\* the name/index query a Normalized Path denotes
PathAsQuery(loc) == [i \in 1..Len(loc) |->
                       IF loc[i].k = "i" THEN I1(loc[i].i) ELSE N1(loc[i].n)]
=============================================================================
