----------------------------- MODULE Trace_Eval -----------------------------
(***************************************************************************)
(* impl -> spec: validates recorded evaluations of the real code on        *)
(* arbitrary (document, query string) pairs.  TLC itself parses the        *)
(* recorded string (JPParse), decides whether it is a valid query and      *)
(* computes its denotation; the recorded outcome, nodelist (locations      *)
(* found by address) and paths must be exactly what the specification      *)
(* allows.  The driver that chose the inputs is not trusted with anything. *)
(***************************************************************************)
EXTENDS JPParse, TLC, Json, IOUtils

Rec == ndJsonDeserialize(IOEnv.TRACE)
VARIABLES l
vars == <<l>>
Init == l = 1
E == Rec[l]

SameMultiset(a, b) == Len(a) = Len(b) /\ \A n \in 1..Len(a) : CountIn(a, a[n]) = CountIn(b, a[n])

Judge(e) ==
  LET v == Verdict(e.q) IN
  IF v = "unscoped" THEN [ok |-> TRUE, verdict |-> v, aspect |-> "", sm |-> FALSE, expect |-> <<>>, expect_paths |-> <<>>]
  ELSE IF v = "invalid" THEN [ok |-> e.outcome = "err", verdict |-> v, aspect |-> "outcome", sm |-> FALSE, expect |-> <<>>, expect_paths |-> <<>>]
  ELSE IF e.outcome # "ok" THEN [ok |-> FALSE, verdict |-> v, aspect |-> "outcome", sm |-> FALSE, expect |-> <<>>, expect_paths |-> <<>>]
  ELSE
    LET ast == ParseAst(e.q)
        exp == Denote(ast, e.doc)
        nodesOK == e.inside /\ SameMultiset(e.res, exp)
        orderOK == e.inside /\ e.res = exp
        ep == [n \in 1..Len(e.res) |-> NormalizedPath(e.res[n])]        \* the path each REPORTED node must carry
        pathsOK == Len(e.paths) = Len(e.res) /\ \A n \in 1..Len(e.res) : e.paths[n] = ep[n]
    IN [ok |-> nodesOK /\ orderOK /\ pathsOK, verdict |-> v,
        aspect |-> IF ~nodesOK THEN "nodes" ELSE IF ~orderOK THEN "order" ELSE "paths",
        sm |-> e.inside /\ e.res = DenoteSM(ast, e.doc), expect |-> exp, expect_paths |-> ep]

Step == /\ l <= Len(Rec)
        /\ LET j == Judge(E) IN
             \/ j.ok /\ TLCSet(2, TLCGet(2) + (IF j.verdict = "valid" THEN 1 ELSE 0)) /\ TLCSet(3, TLCGet(3) + (IF j.verdict = "invalid" THEN 1 ELSE 0))
             \/ ~j.ok /\ TLCSet(1, Append(TLCGet(1), [line |-> l, event |-> E, judgement |-> j]))
        /\ l' = l + 1
Spec == TLCSet(1, <<>>) /\ TLCSet(2, 0) /\ TLCSet(3, 0) /\ Init /\ [][Step]_vars

Post == /\ \A n \in 1..Len(TLCGet(1)) : PrintT(<<"MISMATCH", ToJson(TLCGet(1)[n])>>)
        /\ PrintT(<<"TRACE-SUMMARY", ToJson([events |-> Len(Rec), mismatches |-> Len(TLCGet(1)), consumed |-> TLCGet("stats").diameter - 1,
                                             valid_ok |-> TLCGet(2), invalid_ok |-> TLCGet(3)])>>)
=============================================================================
