----------------------------- MODULE Trace_Eval -----------------------------
(***************************************************************************)
(* impl -> spec: validates recorded evaluations of the real code on        *)
(* arbitrary (document, query string) pairs.  TLC itself parses the        *)
(* recorded string (JPParse), decides whether it is a valid query and      *)
(* computes its denotation; the recorded outcome, nodelist (locations      *)
(* found by address) and paths must be exactly what the specification      *)
(* allows.  The driver that chose the inputs is not trusted with anything. *)
(***************************************************************************)
EXTENDS JPParse, TLC, Json, IOUtils

Rec == ndJsonDeserialize(IOEnv.TRACE)
VARIABLES l
vars == <<l>>
Init == l = 1
E == Rec[l]

SameMultiset(a, b) == Len(a) = Len(b) /\ \A n \in 1..Len(a) : CountIn(a, a[n]) = CountIn(b, a[n])

\* ---- internal events (recorded by the cfg-gated hooks; each is self-contained; absence is never a violation) ----
InternalOK(ie, e, ast) ==
  CASE ie.ev = "slice" -> LET ix == SliceIndices(ie.len, ie.start, ie.end, ie.step) IN ie.emitted = ix /\ ie.iters = Len(ix)
    [] ie.ev = "cmp"   -> ie.result = Compare(ie.op, ie.l, ie.r)
    [] ie.ev = "seg"   -> /\ ie.inside /\ ie.k >= 1 /\ ie.k <= Len(ast)
                          /\ (ie.out = ApplySeg(ast[ie.k], e.doc, ie.inp) \/ ie.out = ApplySegSM(ast[ie.k], e.doc, ie.inp))
    [] OTHER -> TRUE
InternalFailures(e, ast) ==
  IF "internal" \notin DOMAIN e THEN <<>>
  ELSE LET bad == FilterSeq(e.internal, LAMBDA ie : ~InternalOK(ie, e, ast)) IN [n \in 1..Len(bad) |-> bad[n].ev]

\* ---- the AST built by the implementation's parser = the recogniser's AST (numbers compared by value) ----
NormNum(v) == IF v.t = "num" THEN JNum(NumNorm(v)[1], NumNorm(v)[2], v.f) ELSE v
RECURSIVE NormSegs(_), NormLx(_), NormExpr(_)
NormSegs(segs) == [n \in 1..Len(segs) |-> [desc |-> segs[n].desc, sels |-> [m \in 1..Len(segs[n].sels) |->
                     LET s == segs[n].sels[m] IN IF s.k = "filter" THEN [s EXCEPT !.f = <<NormLx(s.f[1])>>] ELSE s]]]
NormExpr(e) == CASE e.k = "lit" -> [e EXCEPT !.v = NormNum(e.v)]
                 [] e.k = "q"   -> [e EXCEPT !.segs = NormSegs(e.segs)]
                 [] e.k = "fn"  -> [e EXCEPT !.args = [n \in 1..Len(e.args) |-> NormExpr(e.args[n])]]
                 [] e.k = "lx"  -> [e EXCEPT !.lx = <<NormLx(e.lx[1])>>]
NormLx(x) == [x EXCEPT !.xs = [n \in 1..Len(x.xs) |-> NormLx(x.xs[n])], !.es = [n \in 1..Len(x.es) |-> NormExpr(x.es[n])]]
AstOK(e, ast) == "ast" \notin DOMAIN e \/ NormSegs(e.ast) = NormSegs(ast)

NoJ == [ok |-> TRUE, verdict |-> "", aspects |-> <<>>, sm |-> FALSE, expect |-> <<>>, expect_paths |-> <<>>]
Judge(e) ==
  LET v == Verdict(e.q) IN
  IF v = "unscoped" THEN [NoJ EXCEPT !.verdict = v]
  ELSE IF v = "invalid" THEN [NoJ EXCEPT !.verdict = v, !.ok = (e.outcome = "err"), !.aspects = IF e.outcome = "err" THEN <<>> ELSE <<"outcome">>]
  ELSE IF e.outcome # "ok" THEN [NoJ EXCEPT !.verdict = v, !.ok = FALSE, !.aspects = <<"outcome">>]
  ELSE
    LET ast == ParseAst(e.q)
        exp == Denote(ast, e.doc)
        nodesOK == e.inside /\ SameMultiset(e.res, exp)
        orderOK == e.inside /\ e.res = exp
        ep == [n \in 1..Len(e.res) |-> NormalizedPath(e.res[n])]        \* the path each REPORTED node must carry
        pathsOK == Len(e.paths) = Len(e.res) /\ \A n \in 1..Len(e.res) : e.paths[n] = ep[n]
        intl == InternalFailures(e, ast)
        asp == (IF nodesOK THEN <<>> ELSE <<"nodes">>) \o (IF orderOK THEN <<>> ELSE <<"order">>)
               \o (IF pathsOK THEN <<>> ELSE <<"paths">>) \o intl \o (IF AstOK(e, ast) THEN <<>> ELSE <<"ast">>)
    IN [ok |-> asp = <<>>, verdict |-> v, aspects |-> asp,
        sm |-> e.inside /\ e.res = DenoteSM(ast, e.doc), expect |-> exp, expect_paths |-> ep]

Step == /\ l <= Len(Rec)
        /\ LET j == Judge(E) IN
             \/ j.ok /\ TLCSet(2, TLCGet(2) + (IF j.verdict = "valid" THEN 1 ELSE 0)) /\ TLCSet(3, TLCGet(3) + (IF j.verdict = "invalid" THEN 1 ELSE 0))
             \/ ~j.ok /\ TLCSet(1, Append(TLCGet(1), [line |-> l, event |-> E, judgement |-> j]))
        /\ l' = l + 1
Spec == TLCSet(1, <<>>) /\ TLCSet(2, 0) /\ TLCSet(3, 0) /\ Init /\ [][Step]_vars

Post == /\ \A n \in 1..Len(TLCGet(1)) : PrintT(<<"MISMATCH", ToJson(TLCGet(1)[n])>>)
        /\ PrintT(<<"TRACE-SUMMARY", ToJson([events |-> Len(Rec), mismatches |-> Len(TLCGet(1)), consumed |-> TLCGet("stats").diameter - 1,
                                             valid_ok |-> TLCGet(2), invalid_ok |-> TLCGet(3)])>>)
=============================================================================
