----------------------------- MODULE Universes -----------------------------
(***************************************************************************)
(* The finite universes (documents x queries) explored by the evaluation   *)
(* machine, one per property, selected by the environment variable         *)
(* VERIF_UNIVERSE.  Zero-arity definitions are evaluated lazily and cached  *)
(* by TLC, so only the selected universe is ever built.  (Universes must    *)
(* NOT be passed through CONSTANT <- substitution: TLC re-evaluates the     *)
(* substituted expression at every use - measured 3 ms per access.)         *)
(***************************************************************************)
EXTENDS Universe

Univ == IF "VERIF_UNIVERSE" \in DOMAIN IOEnv THEN IOEnv.VERIF_UNIVERSE ELSE "C01"

(* ---------- C01 / C02 / C12 / C15: structural selectors ------------------ *)
S0 == <<JNull, JBool(TRUE), JInt(0), JInt(1), JStr(cA), JStr(<<>>), JArr(<<>>), JObj(<<>>, <<>>)>>
R0 == <<JNull, JInt(1), JStr(cA), JArr(<<>>)>>
Names == <<cA, cB>>
L1 == DedupSeq(S0 \o ArraysOver(IF Thorough THEN S0 ELSE R0, 2) \o ObjectsOver(Names, IF Thorough THEN S0 ELSE R0))
R1 == <<JInt(1), JArr(<<JInt(1)>>), JArr(<<JStr(cA), JInt(1)>>), JObj(<<cA>>, <<JInt(1)>>),
        JObj(<<cA, cB>>, <<JInt(1), JStr(cA)>>), JArr(<<JArr(<<>>)>>),
        JObj(<<cA, cB>>, <<JObj(<<cA, cB>>, <<JArr(<<JInt(1)>>), JInt(2)>>), JInt(2)>>)>>          \* {"a":{"a":[1],"b":2},"b":2}: same names nested
R1T == R1 \o <<JObj(<<cB>>, <<JNull>>), JArr(<<JInt(0), JInt(1)>>), JObj(<<cA>>, <<JObj(<<cA>>, <<JInt(1)>>)>>), JStr(cA)>>
L2 == ArraysOver(IF Thorough THEN R1T ELSE R1, 2) \o ObjectsOver(Names, IF Thorough THEN R1T ELSE R1)

RelA == ERel(<<N1(cA)>>)
Filters == <<LTest(FALSE, RelA),                                   \* ?@.a
             LCmp("==", ERel(<<>>), ELit(JInt(1))),                \* ?@==1
             LCmp("==", RelA, ELit(JInt(1))),                      \* ?@.a==1
             LTest(TRUE, RelA),                                    \* ?!@.a
             LTest(FALSE, EAbs(<<N1(cB)>>)),                       \* ?$.b
             LTest(FALSE, ERel(<<Child(<<SFilter(LTest(FALSE, RelA))>>)>>)), \* ?@[?@.a]
             LCmp(">", EFn("length", <<ERel(<<>>)>>), ELit(JInt(1))),     \* ?length(@)>1
             LTest(FALSE, ERel(<<Child(<<SWild>>)>>))>>             \* ?@.*
Sels1 == <<SName(cA), SName(cB), SIndex(0), SIndex(1), SIndex(-1), SIndex(-3), SWild,
           SSlice(ABSENT, ABSENT, ABSENT), SSlice(1, ABSENT, ABSENT), SSlice(ABSENT, ABSENT, -1), SSlice(0, 1, ABSENT)>>
         \o [i \in 1..Len(Filters) |-> SFilter(Filters[i])]
SelLists == [i \in 1..Len(Sels1) |-> <<Sels1[i]>>]
            \o << <<SName(cA), SName(cB)>>, <<SIndex(0), SIndex(0)>>, <<SWild, SIndex(0)>>,
                  <<SSlice(0, 1, ABSENT), SIndex(-1)>>, <<SName(cB), SWild>>,
                  <<SFilter(Filters[1]), SIndex(1)>>, <<SName(cB), SName(cA)>>, <<SIndex(1), SIndex(0)>>, <<SIndex(0), SIndex(1)>>,
                  <<SName(cA), SName(cB), SName(cC), SName(cA), SName(cB), SName(cK)>> >>
Segs == [i \in 1..Len(SelLists) |-> Child(SelLists[i])] \o [i \in 1..Len(SelLists) |-> Desc(SelLists[i])]


C01Docs == DedupSeq(L1 \o L2)
C01Queries == TuplesUpTo(Segs, IF Thorough THEN 3 ELSE 2)
C01Stride == IF Thorough THEN 40 ELSE 16


(* ---------- shared helpers ------------------------------------------------ *)
cL == <<108>>  cY == <<121>>  cN == <<110>>  cP == <<112>>  cS == <<115>>
Obj1(k, v) == JObj(<<k>>, <<v>>)
\* an object with the members whose value is not NOTHING (so "absent" is expressible in a tuple)
ObjOpt(ks, vs) == LET ix == FilterSeq([i \in 1..Len(ks) |-> i], LAMBDA i : vs[i].t # "nothing")
                  IN JObj([n \in 1..Len(ix) |-> ks[ix[n]]], [n \in 1..Len(ix) |-> vs[ix[n]]])
RECURSIVE Chunks(_, _)
Chunks(s, n) == IF Len(s) <= n THEN <<s>> ELSE <<SubSeq(s, 1, n)>> \o Chunks(SubSeq(s, n + 1, Len(s)), n)
Flt1(lx) == <<Child(<<SFilter(lx)>>)>>                 \* $[?lx]
RelN(n) == ERel(<<N1(n)>>)                            \* @.n
AbsIdxN(i, n) == EAbs(<<I1(i), N1(n)>>)               \* $[i].n
F(m, e) == JNum(m, e, TRUE)

(* ---------- C11: index and slice arithmetic ------------------------------- *)
C11Lens == IF Thorough THEN 0..6 ELSE 0..4
ArrOfLen(n) == JArr([i \in 1..n |-> JInt(i - 1)])
\* rows of every length 0..7: slices INSIDE a function argument, where only the number of selected nodes is visible
C11CountDoc == JArr([n \in 1..8 |-> ArrOfLen(n - 1)])
C11Docs == [n \in 1..(IF Thorough THEN 7 ELSE 5) |-> ArrOfLen(n - 1)]
           \o <<JObj(<<cA, cB>>, <<JInt(0), JInt(1)>>), JStr(<<97, 98, 99>>), JInt(5), JNull,
                JArr(<<ArrOfLen(3), ArrOfLen(2), JObj(<<cA>>, <<ArrOfLen(4)>>)>>), C11CountDoc>>
Window(w) == [i \in 1..(2 * w + 1) |-> i - w - 1]
C11Bounds == <<ABSENT>> \o Window(IF Thorough THEN 8 ELSE 4)
             \o (IF Thorough THEN <<BIG, 0 - BIG, BIG - 1, 1 - BIG>> ELSE <<BIG, 0 - BIG>>)
C11Steps == C11Bounds
C11Slices == FlattenSeq([a \in 1..Len(C11Bounds) |-> FlattenSeq([b \in 1..Len(C11Bounds) |->
               [c \in 1..Len(C11Steps) |-> SSlice(C11Bounds[a], C11Bounds[b], C11Steps[c])]])])
C11Idx == LET w == Window(IF Thorough THEN 9 ELSE 6) \o <<BIG, 0 - BIG, BIG - 1, 1 - BIG>>
          IN [i \in 1..Len(w) |-> SIndex(w[i])]
C11Sels == C11Slices \o C11Idx
C11CntB == <<ABSENT, 0, 1, -1, 2, -3>>
C11CntS == <<ABSENT, 1, 2, 3, -1, -2, -3, 5, -5>>
C11CntSlices == FlattenSeq([a \in 1..Len(C11CntB) |-> FlattenSeq([b \in 1..Len(C11CntB) |-> [c \in 1..Len(C11CntS) |-> SSlice(C11CntB[a], C11CntB[b], C11CntS[c])]])])
CountOf(sl) == EFn("count", <<ERel(<<Child(<<sl>>)>>)>>)
C11CountQ == FlattenSeq([i \in 1..Len(C11CntSlices) |->
               << Flt1(LCmp("==", CountOf(C11CntSlices[i]), ELit(JInt(1)))), Flt1(LCmp("==", CountOf(C11CntSlices[i]), ELit(JInt(2)))),
                  Flt1(LCmp(">=", CountOf(C11CntSlices[i]), ELit(JInt(3)))) >>])
             \o [i \in 1..Len(C11CntSlices) |-> Flt1(LCmp("==", EFn("value", <<ERel(<<Child(<<C11CntSlices[i]>>)>>)>>), ELit(JInt(1))))]    \* value(@[slice]) == 1
IdxRun(is) == Child([k \in 1..Len(is) |-> SIndex(is[k])])
C11RunQ == << <<IdxRun(<<3, 2, 1, 0>>)>>, <<IdxRun(<<5, 4, 3, 2, 1, 0>>)>>, <<IdxRun(<<0, 3, 2, 1, 0, 0>>)>>, <<IdxRun(<<0, 1, 2, 3>>)>>, <<IdxRun(<<4, 3, 2, 1>>)>>,
             <<IdxRun(<<2, 1, 0, -1>>)>>, <<IdxRun(<<-1, -2, -3, -4>>)>>, <<IdxRun(<<1, 2, 3, 4, 5, 6, 7, 8>>)>>, <<IdxRun(<<0, 0, 0, 0>>)>>,
             <<Child(<<SIndex(2), SIndex(1), SIndex(0), SSlice(ABSENT, ABSENT, -1)>>)>> >>        \* (one input node each: several would re-find D1)
C11WsB == <<ABSENT, 0, 1, 2, 3, 4, 5, -1>>
C11WsS == <<ABSENT, 1, 2, -1, -2>>
C11WildSliceQ == FlattenSeq([a \in 1..Len(C11WsB) |-> FlattenSeq([b \in 1..Len(C11WsB) |-> [c \in 1..Len(C11WsS) |->
                    <<Child(<<SWild>>), Child(<<SSlice(C11WsB[a], C11WsB[b], C11WsS[c])>>)>>]])])                  \* $[*][a:b:c] over rows of every length, shorter rows first
                 \o << <<Desc(<<SSlice(3, 1, -1)>>)>>, <<Desc(<<SSlice(2, 0, -1)>>)>>, <<Desc(<<SSlice(4, ABSENT, -2)>>)>> >>
C11TouchQ == << <<Child(<<SSlice(3, 1, ABSENT), SSlice(1, 5, ABSENT)>>)>>, <<Child(<<SSlice(1, 0, ABSENT), SSlice(0, 1, ABSENT)>>)>>, <<Child(<<SSlice(0, 2, ABSENT), SSlice(2, 4, ABSENT)>>)>>,
               <<Child(<<SSlice(2, 2, ABSENT), SSlice(2, 3, 1)>>)>>, <<Child(<<SSlice(0, 1, ABSENT), SSlice(1, 2, ABSENT), SSlice(2, 0, ABSENT), SSlice(0, 3, ABSENT)>>)>>,
               Flt1(LCmp("==", EFn("count", <<ERel(<<Child(<<SSlice(2, 0, ABSENT), SSlice(0, 3, ABSENT)>>)>>)>>), ELit(JInt(3)))) >>
C11Queries == [i \in 1..Len(C11Sels) |-> <<Child(<<C11Sels[i]>>)>>]
              \o [i \in 1..Len(C11Sels) |-> <<Desc(<<C11Sels[i]>>)>>]       \* the same under ..
              \o [i \in 1..Len(C11Idx) |-> <<Child(<<SWild>>), Child(<<C11Idx[i]>>)>>]
              \o C11RunQ \o C11TouchQ                                       \* (on every document)
              \o C11WildSliceQ
              \o C11CountQ                                                  \* (always the LAST queries; on C11CountDoc only)
C11Stride == IF Thorough THEN 1 ELSE 3

(* ---------- C03: Normalized Paths ------------------------------------------ *)
C03Alpha == <<97, 32, 39, 34, 92, 47, 1, 10, 233, 128512>>       \* a SP ' " \ / U+0001 LF e-acute U+1F600
C03Names == DedupSeq(TuplesOf(C03Alpha, 1) \o TuplesOf(C03Alpha, 2) \o << <<97, 47, 98>>, <<97, 92, 47, 98>> >>
            \o << <<39, 120, 39>>, <<34, 120, 34>>, <<48>>, <<>>, <<8>>, <<12>>, <<13>>, <<9>>, <<11>>, <<31>>, <<127>>,
                  <<97, 39, 98>>, <<92, 110>>, <<92, 92>>, <<36>>, <<91, 48, 93>>,
                  <<38>>, <<97, 38, 98>>, <<91, 42, 93>>, <<97, 91, 63, 98, 93>>, <<35>>, <<37>>, <<33>>, <<133>>, <<97, 133, 98>>, <<128>>, <<159>>, <<160>>, <<8232>>, <<65535>>, <<1114111>>, <<55295>>, <<57344>>, <<93, 46, 91>> >>)   \* C1 controls, NBSP, LS, range ends
C03Inner == <<JInt(1), JArr(<<JInt(1), JInt(2), JInt(3)>>), JObj(<<cA>>, <<JInt(1)>>)>>
\* one odd-named member at depth 1, and the same below a plain member / inside an array
C03Docs == FlattenSeq([i \in 1..Len(C03Names) |->
              <<Obj1(C03Names[i], C03Inner[(i % 3) + 1]),
                Obj1(cA, Obj1(C03Names[i], JInt(1))),
                JArr(<<JInt(0), Obj1(C03Names[i], JArr(<<JInt(7)>>))>>)>>])
           \o <<JArr(<<JArr(<<JInt(1), JInt(2), JInt(3)>>), JArr(<<>>), JInt(5)>>), JInt(1), JObj(<<>>, <<>>),
                JObj(<<<<233>>>>, <<JObj(<<cA, cB>>, <<JArr(<<JInt(1)>>), JArr(<<JInt(2), JInt(3)>>)>>)>>),                 \* {"e-acute":{"a":[1],"b":[2,3]}}
                JObj(<<<<128512, 233>>, <<128512, 233, 97>>>>, <<JObj(<<cA>>, <<JArr(<<JInt(1)>>)>>), JArr(<<JArr(<<JInt(2)>>), JObj(<<<<233>>>>, <<JInt(3)>>)>>)>>),
                JObj(<<<<47>>, <<92, 47>>, <<97, 47, 98>>, <<97, 92, 47, 98>>>>, <<JInt(1), JInt(2), JArr(<<JInt(3)>>), JArr(<<JInt(4)>>)>>),          \* {"/":1, "\\/":2, "a/b":[3], "a\\/b":[4]}
                JArr(<<JArr(<<>>), JArr(<<>>), JInt(1), Obj1(cA, JInt(1)), Obj1(cA, JInt(1)), Obj1(cA, JInt(1)), JInt(1), JArr(<<JInt(1)>>), JArr(<<JInt(1)>>), JObj(<<>>, <<>>), JObj(<<>>, <<>>), JInt(1)>>),
                JArr(<<JInt(0), JInt(1), JInt(2), JInt(3), JInt(4)>>), JArr([i \in 1..103 |-> JInt(i - 1)])>>
C03NameRoutes == [i \in 1..Len(C03Names) |-> <<N1(C03Names[i])>>]
                 \o [i \in 1..Len(C03Names) |-> <<Desc(<<SName(C03Names[i])>>)>>]
C03Routes == << <<Child(<<SWild>>)>>, <<Desc(<<SWild>>)>>, <<Child(<<SWild>>), Child(<<SWild>>)>>,
                <<Child(<<SFilter(LCmp("==", ERel(<<>>), ELit(JInt(1))))>>)>>,
                <<Desc(<<SFilter(LTest(FALSE, ERel(<<>>)))>>)>>,
                <<Child(<<SIndex(0)>>)>>, <<Child(<<SName(cA)>>), Child(<<SIndex(0)>>)>>, <<Child(<<SIndex(1)>>), Child(<<SName(<<48>>)>>)>>, <<Desc(<<SIndex(-1)>>)>>, <<Desc(<<SIndex(0)>>)>>, <<Desc(<<SSlice(ABSENT, ABSENT, -1)>>)>>,
                <<Desc(<<SSlice(1, ABSENT, ABSENT)>>)>>, <<Child(<<SWild>>), Child(<<SIndex(-2), SIndex(0)>>)>>,
                <<Desc(<<SWild, SIndex(-1)>>)>>, <<Child(<<SSlice(7, ABSENT, -2)>>)>>, <<Child(<<SSlice(-1, -9, -1)>>)>>, <<Child(<<SSlice(-9, 9, 2)>>)>>,
                <<Desc(<<SIndex(100)>>)>>, <<Desc(<<SSlice(98, 102, ABSENT)>>)>>, <<Desc(<<SIndex(-3), SIndex(99)>>)>>, <<Desc(<<SSlice(ABSENT, 97, -1)>>)>>,
                <<Desc(<<SSlice(5, ABSENT, -1)>>)>>, <<Desc(<<SSlice(ABSENT, BIG, ABSENT)>>)>>, <<Child(<<SIndex(-5), SIndex(4)>>)>> >>
C03Queries == C03Routes \o C03NameRoutes
\* name routes only make sense on the documents that contain that name: pick them, plus all generic routes
C03BigDoc == Len(C03Docs)                 \* the 103-element array: only the routes that reach indexes around 100
C03BigRoutes == {q \in 1..Len(C03Routes) : C03Routes[q] \in {<<Desc(<<SIndex(100)>>)>>, <<Desc(<<SSlice(98, 102, ABSENT)>>)>>, <<Desc(<<SIndex(-3), SIndex(99)>>)>>,
                                                                <<Desc(<<SSlice(ABSENT, 97, -1)>>)>>, <<Child(<<SWild>>)>>}}
C03Pick(d, q) == \/ q <= Len(C03Routes) /\ (d = C03BigDoc => q \in C03BigRoutes)
                 \/ LET ni == ((q - Len(C03Routes) - 1) % Len(C03Names)) + 1
                    IN d <= 3 * Len(C03Names) /\ ((d - 1) \div 3) + 1 = ni
                 \/ d > 3 * Len(C03Names) /\ d # C03BigDoc /\ q > Len(C03Routes) /\ C03Names[((q - Len(C03Routes) - 1) % Len(C03Names)) + 1] \in {<<233>>, <<97>>, <<47>>, <<92, 47>>, <<97, 47, 98>>, <<97, 92, 47, 98>>}

(* ---------- C04: comparisons ------------------------------------------------ *)
C04Prims == <<JNull, JBool(TRUE), JBool(FALSE), JInt(0), F(0, 0), JInt(1), F(1, 0), JInt(-1), F(15, -1),
              JInt(100), F(1, 2), F(1000, -1), F(1, -20), F(-1, -20), JInt(2), F(25, -1),
              JNum(1, 19, FALSE), F(1, 19), JNum(9, 18, FALSE),          \* 10^19 (beyond i64: stored as u64), 1e19, 9*10^18
              JStr(<<>>), JStr(cA), JStr(cB), JStr(<<65>>), JStr(<<233>>), JStr(<<128512>>), JStr(<<97, 98>>),
              JStr(<<49>>), JStr(<<97, 0>>), JStr(<<65535>>), JStr(<<57344>>), JStr(<<65536>>), JStr(<<97, 65535>>), JStr(<<97, 128512>>)>>       \* BMP end / supplementary plane: code point order differs from UTF-16 order
nQk == <<39, 107, 39>>   nDQk == <<34, 107, 34>>
C04Structs == <<Obj1(nQk, JInt(1)), JObj(<<nQk, cK>>, <<JInt(1), JInt(1)>>), JObj(<<nQk, cK>>, <<JInt(2), JInt(1)>>), Obj1(nDQk, JInt(1)), JObj(<<nDQk, cK>>, <<JInt(2), JInt(1)>>),
                JArr(<<>>), JArr(<<JInt(1)>>), JArr(<<F(1, 0)>>), JArr(<<JInt(1), JInt(2)>>), JArr(<<JArr(<<JInt(1)>>)>>),
                JObj(<<>>, <<>>), Obj1(cA, JInt(1)), Obj1(cA, F(1, 0)), JObj(<<cA, cB>>, <<JInt(1), JInt(2)>>),
                JArr(<<JNull>>), Obj1(cA, JNull)>>
NegZero == JNum(0, 0 - 999, TRUE)             \* stored as the float -0.0 (harness), mathematically 0
C04Vals == C04Prims \o C04Structs \o <<NegZero, NOTHING>>
C04ValsQ == <<JNull, JBool(TRUE), JInt(0), JInt(1), F(1, 0), F(15, -1), F(1, -20), JInt(100), F(1, 2), JNum(1, 19, FALSE), F(1, 19),
              JStr(<<>>), JStr(cA), JStr(cB), JStr(<<233>>), JStr(<<128512>>), JStr(<<65535>>),
              JArr(<<>>), JArr(<<JInt(1)>>), JArr(<<F(1, 0)>>), JObj(<<>>, <<>>), Obj1(cA, JInt(1)), Obj1(cA, F(1, 0)), NegZero, NOTHING,
              Obj1(nQk, JInt(1)), JObj(<<nQk, cK>>, <<JInt(1), JInt(1)>>), JObj(<<nQk, cK>>, <<JInt(2), JInt(1)>>)>>
C04V == IF Thorough THEN C04Vals ELSE C04ValsQ
\* children {x: v1, y: v2} for all pairs, in chunks
C04Children == Cross2(C04V, C04V, LAMBDA v, w : ObjOpt(<<cX, cY>>, <<v, w>>))
C04ChunkDocs == LET ch == Chunks(C04Children, 40) IN [i \in 1..Len(ch) |-> JArr(ch[i])]
\* integer literals beyond 2^53 are not written in queries (the implementation rejects them; unscoped, see adjudication log)
C04Lits == IF Thorough THEN FilterSeq(C04Prims, LAMBDA v : ~(v.t = "num" /\ ~v.f /\ v.e > 15)) ELSE <<JNull, JBool(TRUE), JInt(0), JInt(1), F(1, 0), F(1, -20), F(1, 2), JInt(100), F(1, 19), F(0, 0), JStr(<<>>), JStr(cA), JStr(<<233>>), JStr(<<65535>>), JStr(<<128512>>)>>
C04Single == JArr([i \in 1..Len(C04V) |-> ObjOpt(<<cX>>, <<C04V[i]>>)])
\* numbers with 17 significant digits (more than a double distinguishes, as many as its shortest round-trip form may need):
\* the literal and the document spell the SAME decimal, so they are the same value; different rows differ within the first 8 digits
C04LongN == IF Thorough THEN 80 ELSE 40
LongM(i) == 10000000 + ((i * 1299709) % 89999989)
LongXs(i) == [k \in 1..9 |-> 48 + ((i * 7 + k * k * 3 + i * k) % 10)]
LongE(i) == CASE i % 5 = 0 -> 0 - 17 [] i % 5 = 1 -> 0 - 20 [] i % 5 = 2 -> 0 - 9 [] i % 5 = 3 -> 3 [] OTHER -> 0 - 330
LongNum(i) == JNumX(LongM(i), LongXs(i), LongE(i), TRUE)
C04LongDoc == JArr([i \in 1..C04LongN |-> Obj1(cX, LongNum(i))])
C04LongQ == FlattenSeq([i \in 1..C04LongN |-> << Flt1(LCmp("==", RelN(cX), ELit(LongNum(i)))), Flt1(LCmp("<", ELit(LongNum(i)), RelN(cX))) >>])
\* an index step inside a comparison operand applies to arrays only (never to a member named "0" or "1")
C04IdxDoc == JArr(<<Obj1(<<48>>, JStr(cX)), JArr(<<JStr(cX)>>), JObj(<<<<49>>, cA>>, <<JInt(5), JInt(5)>>), JArr(<<JInt(1), JInt(5)>>), JStr(cX), JObj(<<<<45, 49>>>>, <<JStr(cX)>>),
                   JObj(<<nQk, cK>>, <<JInt(2), JInt(1)>>), JObj(<<nQk, cK>>, <<JInt(2), JInt(2)>>), JObj(<<cA, cK>>, <<JInt(2), JInt(1)>>), JObj(<<nDQk, cK>>, <<JInt(2), JInt(1)>>)>>)      \* members k and 'k' (two nodes, two values)
C04IdxQ == << Flt1(LCmp("==", ERel(<<I1(0)>>), ELit(JStr(cX)))), Flt1(LCmp("==", ERel(<<I1(1)>>), ELit(JInt(5)))), Flt1(LCmp("!=", ERel(<<I1(0)>>), ELit(JStr(cX)))),
              Flt1(LCmp("==", ERel(<<I1(-1)>>), ELit(JStr(cX)))), Flt1(LCmp("==", ERel(<<>>), EAbs(<<I1(1), I1(0)>>))), Flt1(LCmp("==", EAbs(<<I1(0), I1(0)>>), ERel(<<I1(0)>>))),
              Flt1(LCmp("<=", ERel(<<I1(1)>>), EAbs(<<I1(2), I1(1)>>))), Flt1(LCmp("==", ERel(<<N1(<<48>>)>>), ERel(<<I1(0)>>))),
              \* two DIFFERENT nodes are compared by value, whatever their names look like: value(@[?@ == 2]) == @.k
              Flt1(LCmp("==", EFn("value", <<ERel(<<Child(<<SFilter(LCmp("==", ERel(<<>>), ELit(JInt(2))))>>)>>)>>), RelN(cK))),
              Flt1(LCmp("!=", EFn("value", <<ERel(<<Child(<<SFilter(LCmp("==", ERel(<<>>), ELit(JInt(2))))>>)>>)>>), RelN(cK))),
              Flt1(LCmp("<=", RelN(cK), EFn("value", <<ERel(<<Child(<<SFilter(LCmp("==", ERel(<<>>), ELit(JInt(2))))>>)>>)>>))) >>
LongArr(n, fl, odd) == JArr([i \in 1..n |-> IF i = odd THEN JInt(0 - 1) ELSE IF i > fl THEN F(i, 0) ELSE JInt(i)])
C04ArrDoc == JArr(<<LongArr(65, 99, 0), LongArr(65, 63, 0), LongArr(65, 64, 65), LongArr(65, 0, 0), LongArr(130, 999, 0), LongArr(130, 127, 0), LongArr(130, 100, 129), LongArr(64, 60, 0), LongArr(64, 99, 0)>>)
C04ArrQ == << Flt1(LCmp("==", ERel(<<>>), EAbs(<<I1(0)>>))), Flt1(LCmp("==", ERel(<<>>), EAbs(<<I1(4)>>))), Flt1(LCmp("!=", ERel(<<>>), EAbs(<<I1(1)>>))), Flt1(LCmp("==", EAbs(<<I1(8)>>), ERel(<<>>))),
              Flt1(LCmp("<=", ERel(<<>>), EAbs(<<I1(5)>>))) >>
C04Docs == C04ChunkDocs \o <<C04Single, C04LongDoc, C04IdxDoc, C04ArrDoc>>
C04PairQ == [o \in 1..6 |-> Flt1(LCmp(CmpOps[o], RelN(cX), RelN(cY)))]
            \o [o \in 1..6 |-> Flt1(LCmp(CmpOps[o], EFn("value", <<RelN(cX)>>), RelN(cY)))]
            \o [o \in 1..6 |-> Flt1(LCmp(CmpOps[o], RelN(cX), AbsIdxN(0, cY)))]        \* $-rooted operand
C04LitQ == FlattenSeq([l \in 1..Len(C04Lits) |-> FlattenSeq([o \in 1..6 |->
              << Flt1(LCmp(CmpOps[o], RelN(cX), ELit(C04Lits[l]))),
                 Flt1(LCmp(CmpOps[o], ELit(C04Lits[l]), RelN(cX))) >>])])
           \o FlattenSeq([o \in 1..6 |-> << Flt1(LCmp(CmpOps[o], EFn("length", <<RelN(cX)>>), ELit(JInt(1)))),
                                           Flt1(LCmp(CmpOps[o], EFn("count", <<ERel(<<N1(cX), Child(<<SWild>>)>>)>>), ELit(F(1, 0)))),
                                           Flt1(LCmp(CmpOps[o], ELit(JInt(1)), ELit(F(1, 0)))),
                                           Flt1(LCmp(CmpOps[o], ELit(JStr(cA)), ELit(JStr(cB)))) >>])
C04Queries == C04PairQ \o C04LitQ \o C04LongQ \o C04IdxQ \o C04ArrQ
\* pair queries on pair chunks, literal queries on the single-operand document, long-mantissa queries on theirs
C04Pick(d, q) == IF q <= Len(C04PairQ) THEN d <= Len(C04ChunkDocs)
                 ELSE IF q <= Len(C04PairQ) + Len(C04LitQ) THEN d = Len(C04ChunkDocs) + 1
                 ELSE IF q <= Len(C04PairQ) + Len(C04LitQ) + Len(C04LongQ) THEN d = Len(C04ChunkDocs) + 2
                 ELSE IF q <= Len(C04PairQ) + Len(C04LitQ) + Len(C04LongQ) + Len(C04IdxQ) THEN d = Len(C04ChunkDocs) + 3 ELSE d = Len(C04ChunkDocs) + 4
ASSUME \A i, k \in 1..C04LongN : i # k => LongM(i) # LongM(k)

(* ---------- C05: filter logic, existence, scoping ---------------------------- *)
RECURSIVE NestF(_)
NestF(n) == IF n = 0 THEN LTest(FALSE, RelN(cA)) ELSE LTest(FALSE, ERel(<<Child(<<SFilter(NestF(n - 1))>>)>>))
RECURSIVE NestArr(_)
NestArr(n) == IF n = 0 THEN Obj1(cA, JInt(1)) ELSE JArr(<<NestArr(n - 1), JInt(n)>>)
C05DeepDoc == NestArr(42)
nAB2 == <<97, 98>>   nA1 == <<97, 49>>
C05AVals == <<NOTHING, JInt(1), JNull, JBool(FALSE), JStr(<<>>)>>
C05BVals == <<NOTHING, JArr(<<>>), JObj(<<>>, <<>>), JInt(0)>>
C05CVals == <<NOTHING, JInt(1), JInt(2)>>
C05Kids == FlattenSeq([a \in 1..Len(C05AVals) |-> FlattenSeq([b \in 1..Len(C05BVals) |->
              [c \in 1..Len(C05CVals) |-> ObjOpt(<<cA, cB, cC>>, <<C05AVals[a], C05BVals[b], C05CVals[c]>>)]])])
C05Extra == <<JArr(<<JArr(<<Obj1(cA, JInt(1))>>)>>), Obj1(cX, JArr(<<JArr(<<JArr(<<Obj1(cB, JNull)>>)>>)>>)), JArr(<<JArr(<<JInt(1)>>), Obj1(cA, JInt(2))>>),
              JArr(<<JInt(2), Obj1(cA, JInt(1))>>), JObj(<<cX, <<121>>>>, <<JInt(1), Obj1(cA, JNull)>>), JObj(<<cA, cX>>, <<JInt(1), Obj1(cB, JInt(2))>>), JArr(<<JArr(<<>>), JArr(<<JInt(1), Obj1(cB, JInt(1))>>)>>),
              JArr(<<Obj1(cB, JInt(0)), Obj1(cA, JInt(0))>>), Obj1(nAB2, JInt(1)), Obj1(cA, Obj1(cB, JNull)), Obj1(nA1, JBool(FALSE)), Obj1(cA, JArr(<<JInt(0), JNull>>)), JArr(<<JInt(1), JInt(2)>>), JArr(<<JInt(1)>>),
              JInt(1), JNull, JArr(<<>>), JArr(<<Obj1(cB, JInt(1))>>), JArr(<<Obj1(cA, JInt(1)), JInt(2)>>), Obj1(cX, Obj1(cB, JNull))>>
\* long chains of alternatives (a query as large as hand-written "IN lists"): children whose c is an integer, the same number
\* written as a float, a near miss, a string of the digit, missing
C05ChainVals == <<JInt(1), JInt(2), F(2, 0), F(20, -1), JInt(7), F(7, 0), F(25, -1), JInt(8), JInt(9), JInt(12), F(12, 0), JStr(<<50>>), NOTHING, JNull, JInt(0), JArr(<<JInt(2)>>)>>
C05ChainDoc == JObj(<<cK, cL>>, <<F(3, 0), JArr([i \in 1..Len(C05ChainVals) |-> ObjOpt(<<cA, cC>>, <<JInt(i), C05ChainVals[i]>>)])>>)
ChainOr(n, lit(_)) == LOr([i \in 1..n |-> LCmp("==", RelN(cC), ELit(lit(i)))])
ChainAnd(n, lit(_)) == LAnd([i \in 1..n |-> LCmp("!=", RelN(cC), ELit(lit(i)))])
IntLit(i) == JInt(i)
FloatLit(i) == F(i * 10, -1)
MixLit(i) == IF i % 2 = 0 THEN JInt(i) ELSE F(i, 0)
C05ChainLx == << ChainOr(8, IntLit), ChainOr(9, IntLit), ChainOr(12, IntLit), ChainOr(8, FloatLit), ChainOr(12, MixLit), ChainOr(7, IntLit),
                 LParen(TRUE, ChainOr(8, IntLit)), LParen(TRUE, ChainOr(9, FloatLit)), ChainAnd(8, IntLit), ChainAnd(12, FloatLit),
                 LOr([i \in 1..8 |-> LCmp("==", EAbs(<<N1(cK)>>), ELit(JInt(i)))]),                                       \* $.k == 1 || ... || $.k == 8  ($.k is 3.0)
                 LOr([i \in 1..9 |-> LCmp("==", ELit(JInt(i)), RelN(cC))]),                                              \* literal on the left
                 LAnd(<<ChainOr(8, IntLit), LTest(FALSE, RelN(cA))>>), LOr(<<LParen(FALSE, ChainOr(8, FloatLit)), LCmp("==", RelN(cC), ELit(JNull))>>),
                 LOr([i \in 1..16 |-> LCmp("==", RelN(cC), ELit(IF i = 16 THEN JStr(<<50>>) ELSE JInt(i + 20)))]),
                 LOr([i \in 1..10 |-> LCmp("<", RelN(cC), ELit(JInt(i - 5)))]), LAnd([i \in 1..10 |-> LCmp(">=", RelN(cC), ELit(F(i, 0)))]) >>
C05Docs == <<JObj(<<cK, cL>>, <<JInt(1), JArr(C05Kids \o C05Extra)>>),
             JObj(<<cK, cL>>, <<JInt(2), JObj([i \in 1..12 |-> <<107, 48 + (i \div 10), 48 + (i % 10)>>], [i \in 1..12 |-> (C05Kids \o C05Extra)[i * 5]])>>),
             JArr(<<JArr(<<Obj1(cB, JInt(1))>>), JArr(<<JInt(1)>>), JArr(<<>>), Obj1(cA, Obj1(cB, JInt(1))), Obj1(cB, JInt(1)), JInt(3)>>),
             C05DeepDoc, C05ChainDoc>>
TA == LTest(FALSE, RelN(cA))   TB == LTest(FALSE, RelN(cB))   TC == LCmp("==", RelN(cC), ELit(JInt(1)))
NA == LTest(TRUE, RelN(cA))    NB == LTest(TRUE, RelN(cB))
TK == LCmp("==", EAbs(<<N1(cK)>>), RelN(cA))                       \* $.k == @.a   ($ is the document root)
TW == LTest(FALSE, ERel(<<Child(<<SWild>>)>>))                     \* @.*
TN == LTest(FALSE, ERel(<<Child(<<SFilter(LTest(FALSE, RelN(cB)))>>)>>))      \* @[?@.b]   (nested filter, @ rebinding)
TN2 == LTest(FALSE, ERel(<<Child(<<SWild>>), Child(<<SFilter(LCmp("==", ERel(<<>>), EAbs(<<N1(cK)>>)))>>)>>))  \* @.*[?@ == $.k]
TNN == LTest(TRUE, ERel(<<Child(<<SFilter(LTest(TRUE, RelN(cB)))>>)>>))       \* !@[?!@.b]
TEq == LCmp("==", RelN(cA), RelN(cX))                              \* @.a == @.x  (true when both select nothing)
TLe == LCmp("<=", RelN(cX), EAbs(<<N1(cX)>>))                      \* @.x <= $.x
TNLt == LParen(TRUE, LCmp("<", RelN(cA), ELit(JInt(5))))           \* !(@.a < 5)    operands that are not comparable
TNGe == LParen(TRUE, LCmp(">=", RelN(cA), RelN(cC)))               \* !(@.a >= @.c)
TAB == LTest(FALSE, RelN(nAB2))                                    \* @.ab
TAdB == LTest(FALSE, ERel(<<N1(cA), N1(cB)>>))                      \* @.a.b
TA1 == LTest(FALSE, RelN(nA1))                                     \* @.a1
TAi1 == LTest(FALSE, ERel(<<N1(cA), Child(<<SIndex(1)>>)>>))         \* @.a[1]
TS1 == LTest(FALSE, ERel(<<Child(<<SSlice(1, ABSENT, ABSENT)>>)>>))  \* @[1:]
TS10 == LTest(FALSE, ERel(<<Child(<<SSlice(1, 0, ABSENT)>>)>>))      \* @[1:0]
TWA == LTest(FALSE, ERel(<<Child(<<SWild>>), N1(cA)>>))                       \* @.*.a
TWB == LTest(FALSE, ERel(<<Child(<<SWild>>), N1(cB)>>))                       \* @[*].b
TUA == LTest(FALSE, ERel(<<Child(<<SName(cX), SName(cA)>>), N1(cB)>>))         \* @['x','a'].b
TDA == LTest(FALSE, ERel(<<Desc(<<SWild>>), N1(cA)>>))                        \* @..*.a
NWA == LTest(TRUE, ERel(<<Child(<<SWild>>), N1(cA)>>))                        \* !@.*.a
TW2 == LTest(FALSE, ERel(<<Child(<<SWild>>), Child(<<SWild>>), N1(cB)>>))      \* @.*.*.b
NMt == LTest(TRUE, EFn("match", <<RelN(cA), ELit(JStr(<<49>>))>>))             \* !match(@.a, '1')
NSr == LTest(TRUE, EFn("search", <<RelN(cA), ELit(JStr(<<>>))>>))              \* !search(@.a, '')
TAbsK == LTest(FALSE, EAbs(<<N1(cK)>>))                                       \* $.k          (absolute query as a test)
NAbsX == LTest(TRUE, EAbs(<<N1(cX)>>))                                        \* !$.x
TAbsL0 == LTest(FALSE, EAbs(<<N1(cL), I1(0)>>))                               \* $.l[0]
CAbs == LCmp(">", EFn("count", <<EAbs(<<N1(cL), Child(<<SWild>>)>>)>>), ELit(JInt(1)))      \* count($.l.*) > 1   (absolute query as an argument)
C05FnAbs == <<NMt, NSr, LAnd(<<TA, NMt>>), LOr(<<NSr, TB>>), TAbsK, NAbsX, TAbsL0, CAbs, LAnd(<<TAbsK, TA>>), LOr(<<NAbsX, TB>>), LAnd(<<CAbs, NA>>)>>
TDesc == LTest(FALSE, ERel(<<Desc(<<SName(cA)>>)>>))                           \* @..a
NDesc == LTest(TRUE, ERel(<<Desc(<<SName(cB)>>)>>))                            \* !@..b
C05Branchy == <<TDesc, NDesc, LAnd(<<TDesc, NA>>), TWA, TWB, TUA, TDA, NWA, TW2, LAnd(<<TWA, TWB>>), LOr(<<NWA, TUA>>)>>
C05LookAlike == << LOr(<<TAB, TAdB>>), LOr(<<TAdB, TAB>>), LAnd(<<TAB, TAdB>>), LOr(<<TA1, TAi1>>), LOr(<<TAi1, TA1>>), LAnd(<<TAi1, TA1>>),
                   LOr(<<TS10, TS1>>), LAnd(<<TS1, TS10>>), LOr(<<TAB, TAB, TAdB>>), LAnd(<<LParen(TRUE, TAB), TAdB>>), LOr(<<TA, TA>>), LAnd(<<TA, TA, TB>>) >>
C05Atoms == <<TA, TB, TC, NA, TK, TW, TN, TN2, TEq, TLe, TNLt, TNGe>>
C05AtomsT == C05Atoms \o <<NB, TNN, LCmp("!=", RelN(cA), RelN(cC)), LTest(FALSE, EAbs(<<N1(cK)>>)), LTest(TRUE, EAbs(<<N1(cX)>>))>>
C05A == IF Thorough THEN C05AtomsT ELSE C05Atoms
C05And2 == Cross2(C05A, C05A, LAMBDA x, y : LAnd(<<x, y>>))
C05Or2 == Cross2(C05A, C05A, LAMBDA x, y : LOr(<<x, y>>))
C05Core == <<TA, TB, TC, NA>>
C05AndNot == FlattenSeq([i \in 1..Len(C05Core) |-> Cross2(C05Core, C05Core, LAMBDA y, z : LAnd(<<C05Core[i], LParen(TRUE, LAnd(<<y, z>>))>>))])     \* a && !(b && c)
             \o Cross2(C05Core, C05Core, LAMBDA y, z : LAnd(<<LParen(TRUE, LParen(FALSE, LAnd(<<y, z>>))), TA>>))                                  \* !((b && c)) && a
C05And3 == FlattenSeq([i \in 1..Len(C05Core) |-> Cross2(C05Core, C05Core, LAMBDA y, z : LAnd(<<C05Core[i], y, z>>))])
C05OrAnd == FlattenSeq([i \in 1..Len(C05Core) |-> Cross2(C05Core, C05Core, LAMBDA y, z : LOr(<<C05Core[i], LAnd(<<y, z>>)>>))])   \* a || b && c
C05AndOr == FlattenSeq([i \in 1..Len(C05Core) |-> Cross2(C05Core, C05Core, LAMBDA y, z : LOr(<<LAnd(<<C05Core[i], y>>), z>>))])   \* a && b || c
C05ParOr == FlattenSeq([i \in 1..Len(C05Core) |-> Cross2(C05Core, C05Core, LAMBDA y, z : LAnd(<<LParen(FALSE, LOr(<<C05Core[i], y>>)), z>>))]) \* (a || b) && c
C05NegPar == FlattenSeq([i \in 1..Len(C05Core) |-> Cross2(C05Core, C05Core, LAMBDA y, z : LOr(<<LParen(TRUE, LAnd(<<C05Core[i], y>>)), z>>))])  \* !(a && b) || c
\* (a op b) OP c and c OP (a op b), with and without negation of the group, for all op/OP combinations
C05Group == FlattenSeq(Cross2(C05Core, C05Core, LAMBDA a, b :
              <<LParen(TRUE, LOr(<<a, b>>)), LParen(FALSE, LOr(<<a, b>>)), LParen(TRUE, LAnd(<<a, b>>)), LParen(FALSE, LAnd(<<a, b>>))>>))
C05GroupOps == FlattenSeq(Cross2(C05Group, <<TA, NA>>, LAMBDA grp, z :
              <<LOr(<<grp, z>>), LOr(<<z, grp>>), LAnd(<<grp, z>>), LAnd(<<z, grp>>), LOr(<<z, grp, TC>>)>>))
C05NegOr == Cross2(C05A, C05A, LAMBDA x, y : LParen(TRUE, LOr(<<x, y>>)))                                                  \* !(a || b)
C05DblNeg == [i \in 1..Len(C05A) |-> LParen(TRUE, LParen(TRUE, C05A[i]))]                                                   \* !(!(a))
C05Deep == Cross2(C05Core, C05Core, LAMBDA x, y : LParen(TRUE, LOr(<<LParen(TRUE, LAnd(<<x, y>>)), LParen(FALSE, LParen(TRUE, y))>>)))
C05Lx == C05A \o C05LookAlike \o C05Branchy \o C05FnAbs \o C05AndNot \o C05GroupOps \o C05And2 \o C05Or2 \o C05And3 \o C05OrAnd \o C05AndOr \o C05ParOr \o C05NegPar \o C05NegOr \o C05DblNeg \o C05Deep
\* a filter selector that receives the SAME node several times keeps its children each time (a nodelist is not a set)
C05MultiQ == << <<N1(cL), Child(<<SFilter(TAdB), SFilter(TAB)>>)>>, <<N1(cL), Child(<<SFilter(TAB), SFilter(TAdB), SFilter(TAB)>>)>>,
                <<N1(cL), Child(<<SFilter(LAnd(<<LParen(FALSE, LOr(<<TA, TB>>)), TC>>)), SFilter(LOr(<<TA, LAnd(<<TB, TC>>)>>))>>)>>,                   \* [?(a || b) && c, ?a || b && c]
                <<N1(cL), Child(<<SFilter(TA), SFilter(TB)>>)>>, <<N1(cL), Child(<<SFilter(TB), SFilter(TA), SFilter(TB)>>)>>, <<N1(cL), Child(<<SFilter(NA), SIndex(0), SFilter(TC)>>)>>,
                Flt1(LCmp("==", EFn("count", <<ERel(<<Child(<<SFilter(LTest(FALSE, ERel(<<>>))), SFilter(LTest(FALSE, ERel(<<>>)))>>)>>)>>), ELit(JInt(2)))) >>
C05DupQ == << <<Child(<<SName(cL), SName(cL)>>), Child(<<SFilter(TA)>>)>>, <<Child(<<SName(cL), SName(cK), SName(cL)>>), Child(<<SFilter(NA)>>)>>,
              <<Child(<<SIndex(0), SIndex(0)>>), Child(<<SFilter(TB)>>)>>, <<Child(<<SIndex(1), SIndex(-5)>>), Child(<<SFilter(LCmp(">", ERel(<<>>), ELit(JInt(0))))>>)>>,
              <<Child(<<SWild, SIndex(1)>>), Child(<<SFilter(LTest(FALSE, ERel(<<>>)))>>)>>, <<Child(<<SWild, SWild>>), Child(<<SFilter(TA)>>)>>,
              Flt1(LCmp("==", EFn("count", <<ERel(<<Child(<<SName(cA), SName(cA)>>), Child(<<SFilter(LTest(FALSE, ERel(<<>>)))>>)>>)>>), ELit(JInt(2)))) >>
C05DeepQ == << <<Child(<<SFilter(NestF(34))>>)>>, <<Child(<<SFilter(NestF(40))>>)>>, <<Child(<<SFilter(NestF(41))>>)>>, <<Desc(<<SFilter(NestF(33))>>)>> >>
C05Queries == C05DeepQ \o [i \in 1..Len(C05Lx) |-> <<N1(cL), Child(<<SFilter(C05Lx[i])>>)>>]        \* $.l[?lx]
              \o [i \in 1..Len(C05A) |-> <<Desc(<<SFilter(C05A[i])>>)>>]                \* $..[?atom]
              \o [i \in 1..Len(C05A) |-> <<Child(<<SFilter(C05A[i])>>)>>]               \* $[?atom]
              \o C05DupQ \o C05MultiQ
              \o [i \in 1..Len(C05ChainLx) |-> <<N1(cL), Child(<<SFilter(C05ChainLx[i])>>)>>]   \* $.l[?c == 1 || c == 2 || ...]   (always the LAST queries)
C05Stride == IF Thorough THEN 1 ELSE 2

(* ---------- C10: length, count, value, match, search -------------------------- *)
C10Chars == <<97, 98, 10, 128512>>
C10Subjects == TuplesUpTo(C10Chars, IF Thorough THEN 3 ELSE 2) \o << <<13>>, <<97, 13>>, <<233>>, <<97, 98, 97, 98>>, <<98, 97>> >>
C10NonStr == <<JNull, JBool(TRUE), JInt(1), JArr(<<JStr(cA)>>), Obj1(cA, JStr(cA)), JArr(<<>>)>>
C10SubjDoc == JArr([i \in 1..Len(C10Subjects) |-> JStr(C10Subjects[i])] \o C10NonStr)
ReAtoms == <<RChr(97), RChr(98), RAny, RCls(<< <<97, 98>> >>), RNcls(<< <<97, 97>> >>), RChr(128512)>>
ReQuant == FlattenSeq([i \in 1..Len(ReAtoms) |-> <<RStar(ReAtoms[i]), RPlus(ReAtoms[i]), ROpt(ReAtoms[i])>>])
ReL1 == ReAtoms \o ReQuant
ReCat2 == Cross2(ReL1, ReL1, LAMBDA x, y : RCat(<<x, y>>))
ReAlt2 == Cross2(ReL1, ReL1, LAMBDA x, y : RAlt(<<x, y>>))
ReGrpAlt == [i \in 1..Len(ReAlt2) |-> RGrp(ReAlt2[i])]
ReL2 == ReL1 \o ReCat2 \o ReAlt2
        \o Cross2(SubSeq(ReGrpAlt, 1, 40), <<RChr(97), RStar(RAny)>>, LAMBDA g, y : RCat(<<g, y>>))   \* (x|y)a
        \o [i \in 1..40 |-> RStar(ReGrpAlt[i * 3])]                                                       \* (x|y)*
        \o Cross2(SubSeq(ReCat2, 1, 30), SubSeq(ReL1, 1, 6), LAMBDA c, y : RAlt(<<c, y>>))                  \* xy|z
        \o <<RAlt(<<RChr(97), RChr(98), RCat(<<RChr(97), RChr(98)>>)>>), RCat(<<RChr(97), RAny, RChr(98)>>), REps,
             RCls(<< <<97, 97>>, <<128512, 128512>> >>), RPlus(RGrp(RCat(<<RChr(97), RChr(98)>>)))>>
C10Patterns == [i \in 1..Len(ReL2) |-> RenderRe(ReL2[i])]
C10BadPatterns == << <<91>>, <<40>>, <<42, 97>>, <<97, 41>>, <<91, 93>>, <<97, 124, 42>> >>
C10AllPatterns == C10Patterns \o C10BadPatterns
C10ReQ == FlattenSeq([i \in 1..Len(C10AllPatterns) |->
            << Flt1(LTest(FALSE, EFn("match", <<ERel(<<>>), ELit(JStr(C10AllPatterns[i]))>>))),
               Flt1(LTest(FALSE, EFn("search", <<ERel(<<>>), ELit(JStr(C10AllPatterns[i]))>>))) >>])
C10FnVals == <<NOTHING, JNull, JBool(FALSE), JInt(3), F(15, -1), JStr(<<>>), JStr(cA), JStr(<<128512, 233>>), JStr(<<97, 98, 99>>),
               JArr(<<>>), JArr(<<JInt(1)>>), JArr(<<JInt(1), JInt(2)>>), JArr(<<JArr(<<JInt(1), JInt(1)>>)>>),
               JObj(<<>>, <<>>), Obj1(cA, JInt(1)), JObj(<<cA, cB>>, <<JInt(1), JInt(1)>>), Obj1(cA, Obj1(cA, JInt(1)))>>
C10FnDoc == JArr([i \in 1..Len(C10FnVals) |-> ObjOpt(<<cX>>, <<C10FnVals[i]>>)])
XW == ERel(<<N1(cX), Child(<<SWild>>)>>)       \* @.x[*]
XD == ERel(<<Desc(<<SName(cA)>>)>>)            \* @..a
C10FnExprs == <<EFn("length", <<RelN(cX)>>), EFn("count", <<XW>>), EFn("count", <<XD>>), EFn("count", <<RelN(cX)>>),
                EFn("value", <<XW>>), EFn("value", <<XD>>), EFn("length", <<EFn("value", <<XW>>)>>),
                EFn("length", <<EFn("value", <<RelN(cX)>>)>>), EFn("count", <<ERel(<<Desc(<<SWild>>)>>)>>),
                EFn("value", <<ERel(<<N1(cX), Child(<<SFilter(LCmp(">", ERel(<<>>), ELit(JInt(1))))>>)>>)>>),     \* value(@.x[?@ > 1])
                EFn("value", <<ERel(<<N1(cX), Child(<<SSlice(1, ABSENT, ABSENT)>>)>>)>>),                         \* value(@.x[1:])
                EFn("count", <<ERel(<<N1(cX), Child(<<SFilter(LCmp(">", ERel(<<>>), ELit(JInt(5))))>>)>>)>>),
                EFn("value", <<ERel(<<Child(<<SFilter(LCmp(">", ERel(<<>>), ELit(JInt(1))))>>)>>)>>),             \* value(@[?@ > 1])  filter applied directly to @
                EFn("value", <<ERel(<<Child(<<SSlice(1, ABSENT, ABSENT)>>)>>)>>),                                 \* value(@[1:])
                EFn("count", <<ERel(<<Child(<<SSlice(5, ABSENT, ABSENT)>>)>>)>>),
                EFn("length", <<ERel(<<N1(cX), I1(-1)>>)>>), EFn("value", <<ERel(<<N1(cX), I1(-1)>>)>>), EFn("length", <<EFn("value", <<ERel(<<N1(cX), I1(-2)>>)>>)>>),     \* length(@.x[-1]) ...
                EFn("count", <<ERel(<<N1(cX), Child(<<SIndex(0), SIndex(0)>>)>>)>>),                                \* count(@.x[0,0])   a node selected twice counts twice
                EFn("count", <<ERel(<<N1(cX), Child(<<SWild, SWild>>)>>)>>),                                        \* count(@.x[*,*])
                EFn("count", <<ERel(<<N1(cX), Child(<<SSlice(0, 2, ABSENT), SSlice(1, 3, ABSENT), SIndex(-1)>>)>>)>>), \* count(@.x[0:2,1:3,-1])
                EFn("count", <<ERel(<<Child(<<SName(cX), SName(cX), SWild>>)>>)>>),                                 \* count(@['x','x',*])
                EFn("value", <<ERel(<<N1(cX), Child(<<SIndex(0), SIndex(0)>>)>>)>>)>>                               \* value(@.x[0,0])   two nodes: nothing
C10FnQ == FlattenSeq([f \in 1..Len(C10FnExprs) |->
             [k \in 1..5 |-> Flt1(LCmp("==", C10FnExprs[f], ELit(JInt(k - 1))))]
             \o << Flt1(LCmp(">=", C10FnExprs[f], ELit(JInt(0)))), Flt1(LCmp("<", C10FnExprs[f], ELit(JInt(2)))),
                   Flt1(LCmp("==", C10FnExprs[f], C10FnExprs[f])), Flt1(LCmp("!=", C10FnExprs[f], ELit(JInt(1)))),
                   Flt1(LCmp("==", ELit(JInt(1)), C10FnExprs[f])) >>])
          \o << Flt1(LTest(FALSE, EFn("match", <<RelN(cX), ELit(JStr(<<97, 46, 42>>))>>))),       \* match(@.x, 'a.*')
                Flt1(LTest(TRUE, EFn("search", <<RelN(cX), ELit(JStr(<<98>>))>>))),                \* !search(@.x, 'b')
                Flt1(LTest(FALSE, EFn("match", <<RelN(cX), RelN(cX)>>))),                           \* pattern from the document
                Flt1(LTest(FALSE, EFn("search", <<ELit(JStr(<<97, 98, 99>>)), RelN(cX)>>))),
                Flt1(LTest(FALSE, EFn("match", <<ELit(JInt(1)), ELit(JStr(<<49>>))>>))),            \* non-string subject
                Flt1(LTest(FALSE, EFn("match", <<ELit(JStr(<<49>>)), ELit(JInt(1))>>))) >>           \* non-string pattern
C10LitQ == << Flt1(LCmp("==", EFn("length", <<ELit(JStr(<<1078, 1078>>))>>), ELit(JInt(2)))),                 \* length('zhzh') == 2
              Flt1(LCmp("==", EFn("length", <<ELit(JStr(<<128512>>))>>), ELit(JInt(1)))),
              Flt1(LCmp("==", EFn("length", <<RelN(cX)>>), EFn("length", <<ELit(JStr(<<26085, 26412, 97>>))>>))),
              Flt1(LCmp("<", EFn("length", <<ELit(JStr(<<233>>))>>), ELit(JInt(2)))) >>
\* {s: subject, p: pattern} children: the pattern comes from the document
C10PatDocPats == << <<39, 97, 39>>, <<34, 97>>, <<97, 39>>, <<92, 92, 91, 97, 46, 93>>, <<92, 92, 46>>, <<97, 92, 46, 98>>, <<92, 46>>, <<91, 97, 46, 93>>, <<91, 92, 93, 93>>, <<92, 92>>,
                   <<97, 92, 92, 98>>, <<40, 97, 124, 98, 41, 92, 46>>, <<91, 94, 92, 92, 93>>, <<97, 46, 98>>, <<91>>, <<92>>, <<97, 92, 92, 46, 98>>, <<92, 92, 92, 92>>, <<91, 94, 92, 92, 92, 92, 93>>, <<92, 92, 92, 46>> >>
C10PatDocSubj == << <<39, 97, 39>>, <<34, 97>>, <<97, 39>>, <<92, 120>>, <<92, 97>>, <<92, 13>>, <<92, 46>>, <<97, 46, 98>>, <<97, 120, 98>>, <<46>>, <<93>>, <<92>>, <<97, 92, 98>>, <<97, 13, 98>>, <<120>>, <<97>> >>
\* counted repetition, incl. a long one (size of the compiled automaton)
RepN(c, n) == [i \in 1..n |-> c]
C10RepPats == << RenderRe(RRep(RChr(97), 2, 2)), RenderRe(RRep(RCls(<< <<97, 98>> >>), 2, 3)), RenderRe(RRep(RGrp(RCat(<<RChr(97), RChr(98)>>)), 1, 0 - 1)),
                RenderRe(RRep(RChr(97), 0, 0)), RenderRe(RRep(RAny, 12, 12)), RenderRe(RCat(<<RChr(98), RRep(RAny, 0, 2)>>)), <<97, 123, 50>>, <<97, 123, 51, 44, 50, 125>> >>
C10RepSubj == << <<>>, <<97>>, <<97, 97>>, <<97, 97, 97>>, <<97, 98>>, <<97, 98, 97, 98>>, <<98, 97, 98, 97>>, <<98>>, <<98, 10>>, RepN(97, 12), RepN(97, 11), RepN(120, 13), <<97, 123, 50>> >>
C10RepDoc == JArr(Cross2(C10RepSubj, C10RepPats, LAMBDA sj, pt : JObj(<<cP, cS>>, <<JStr(pt), JStr(sj)>>)))
\* one LONG counted repetition (size of the compiled automaton), used with match only (search would be quadratic in TLC)
C10BigN == IF Thorough THEN 1250 ELSE 150
C10BigDoc == JArr(<<JObj(<<cP, cS>>, <<JStr(RenderRe(RRep(RAny, C10BigN, C10BigN))), JStr(RepN(97, C10BigN))>>),
                    JObj(<<cP, cS>>, <<JStr(RenderRe(RRep(RAny, C10BigN, C10BigN))), JStr(RepN(97, C10BigN - 1))>>)>>)
C10PatDoc == JArr(Cross2(C10PatDocSubj, C10PatDocPats, LAMBDA sj, pt : JObj(<<cP, cS>>, <<JStr(pt), JStr(sj)>>)))
C10LitSubj == << <<97, 46, 98>>, <<92, 120>>, <<92>>, <<46>>, <<97, 92, 98>>, <<93>> >>
C10LitSubjQ == FlattenSeq([i \in 1..Len(C10LitSubj) |->
                 << Flt1(LTest(FALSE, EFn("match", <<ELit(JStr(C10LitSubj[i])), RelN(cP)>>))), Flt1(LTest(FALSE, EFn("search", <<ELit(JStr(C10LitSubj[i])), RelN(cP)>>))) >>])     \* search('a.b', @.p)
C10PatQ == C10LitSubjQ \o << Flt1(LTest(FALSE, EFn("match", <<RelN(cS), RelN(cP)>>))), Flt1(LTest(FALSE, EFn("search", <<RelN(cS), RelN(cP)>>))) >>
C10Docs == <<C10SubjDoc, C10FnDoc, C10PatDoc, C10RepDoc, C10BigDoc>>
\* literal patterns whose SPELLING contains backslashes, on the documents whose patterns come from the document: the same
\* text once as a literal (one backslash meant) and once as a document value (two backslashes meant), in one process
C10EscLits == << <<92, 46>>, <<97, 92, 46, 98>>, <<92, 92>>, <<91, 94, 92, 92, 93>>, <<92, 92, 46>> >>
C10EscLitQ == FlattenSeq([i \in 1..Len(C10EscLits) |->
                << Flt1(LTest(FALSE, EFn("match", <<RelN(cS), ELit(JStr(C10EscLits[i]))>>))),
                   Flt1(LTest(FALSE, EFn("search", <<RelN(cS), ELit(JStr(C10EscLits[i]))>>))) >>])
C10Queries == C10ReQ \o C10FnQ \o C10LitQ \o C10EscLitQ \o C10PatQ
C10Pick(d, q) == IF q <= Len(C10ReQ) THEN d = 1 /\ Stride(IF Thorough THEN 1 ELSE 3, d, q)
                 ELSE IF q <= Len(C10ReQ) + Len(C10FnQ) + Len(C10LitQ) THEN d = 2 ELSE (d \in {3, 4} \/ (d = 5 /\ q = Len(C10Queries) - 1))

(* ---------- C14: in, nin, none_of, any_of, subset_of ---------------------------- *)
C14Elems == <<JNull, JBool(TRUE), JInt(1), JInt(2), JStr(cA), JArr(<<>>), JArr(<<JInt(1)>>), Obj1(cA, JInt(1))>>
C14ElemsQ == <<JNull, JInt(1), JInt(2), JStr(cA), JArr(<<JInt(1)>>)>>
C14E == IF Thorough THEN C14Elems ELSE C14ElemsQ
C14Arrs == ArraysOver(C14E, IF Thorough THEN 3 ELSE 2)
C14X == C14E \o SubSeq(C14Arrs, 1, Min2(Len(C14Arrs), IF Thorough THEN 200 ELSE 31)) \o <<NOTHING, Obj1(cB, JInt(2))>>
C14Ls == SubSeq(C14Arrs, 1, Min2(Len(C14Arrs), IF Thorough THEN 200 ELSE 31)) \o <<NOTHING, JInt(1), JStr(cA), Obj1(cA, JInt(1)), JNull>>
C14Children == Cross2(C14X, C14Ls, LAMBDA x, l : ObjOpt(<<cL, cX>>, <<l, x>>))
C14Fns == <<"in", "nin", "none_of", "any_of", "subset_of">>
\* integer needles never meet an equal-valued float (and vice versa): the property does not say which equality decides 2 vs 2.0
nSp == <<97, 32, 98>>   nNoSp == <<97, 98>>   nSp2 == <<97, 32, 32, 98>>
C14LitDoc == JArr(<<JObj(<<nSp, nNoSp, cL>>, <<JArr(<<JInt(1)>>), JArr(<<JInt(2)>>), JArr(<<JStr(nSp), JInt(5)>>)>>), JObj(<<nSp, nNoSp, cL>>, <<JArr(<<JInt(2)>>), JArr(<<JInt(1)>>), JArr(<<JStr(nNoSp), JInt(6)>>)>>),      \* (no integer equal to a float needle)
                    Obj1(cL, JArr(<<F(2, 0), JStr(cA)>>)), Obj1(cL, JArr(<<F(7, 0), JStr(cB)>>)), Obj1(cL, JArr(<<F(25, -1)>>)), Obj1(cL, JArr(<<>>)), Obj1(cX, JInt(1))>>)
C14LitQ == FlattenSeq([f \in 1..5 |-> << Flt1(LTest(FALSE, EFn(C14Fns[f], <<ELit(JStr(nSp)), RelN(cL)>>))), Flt1(LTest(FALSE, EFn(C14Fns[f], <<ELit(JStr(nNoSp)), RelN(cL)>>))),
                                         Flt1(LTest(FALSE, EFn(C14Fns[f], <<ELit(JStr(nSp2)), RelN(cL)>>))),
                                         Flt1(LTest(FALSE, EFn(C14Fns[f], <<ELit(JInt(1)), ERel(<<N1(nSp)>>)>>))), Flt1(LTest(FALSE, EFn(C14Fns[f], <<ELit(JInt(1)), ERel(<<N1(nNoSp)>>)>>))),
                                         Flt1(LTest(FALSE, EFn(C14Fns[f], <<ERel(<<N1(nSp)>>), ERel(<<N1(nNoSp)>>)>>))), Flt1(LTest(FALSE, EFn(C14Fns[f], <<ERel(<<N1(nNoSp)>>), ERel(<<N1(nSp)>>)>>))) >>])
           \o FlattenSeq([f \in 1..2 |-> << Flt1(LTest(FALSE, EFn(C14Fns[f], <<ELit(F(2, 0)), RelN(cL)>>))), Flt1(LTest(FALSE, EFn(C14Fns[f], <<ELit(JInt(3)), RelN(cL)>>))),
                                         Flt1(LTest(FALSE, EFn(C14Fns[f], <<ELit(F(25, -1)), RelN(cL)>>))), Flt1(LTest(FALSE, EFn(C14Fns[f], <<ELit(JStr(cA)), RelN(cL)>>))) >>])
C14Docs == (LET ch == Chunks(C14Children, 60) IN [i \in 1..Len(ch) |-> JArr(ch[i])]) \o <<C14LitDoc>>
C14Queries == FlattenSeq([f \in 1..5 |->
                << Flt1(LTest(FALSE, EFn(C14Fns[f], <<RelN(cX), RelN(cL)>>))),
                   Flt1(LTest(TRUE, EFn(C14Fns[f], <<RelN(cX), RelN(cL)>>))),
                   Flt1(LTest(FALSE, EFn(C14Fns[f], <<RelN(cX), AbsIdxN(0, cL)>>))),
                   Flt1(LAnd(<<LTest(FALSE, EFn(C14Fns[f], <<RelN(cX), RelN(cL)>>)), LTest(FALSE, RelN(cX))>>)),
                   \* arguments given as NON-singular queries that select at most one node ('zz' is nowhere): the argument is that node
                   Flt1(LTest(FALSE, EFn(C14Fns[f], <<RelN(cX), AbsIdxN(-1, cL)>>))), Flt1(LTest(FALSE, EFn(C14Fns[f], <<RelN(cX), EAbs(<<I1(-2), N1(cL)>>)>>))),    \* fn(@.x, $[-1].l)   negative index in an absolute argument
                   Flt1(LTest(FALSE, EFn(C14Fns[f], <<RelN(cL), RelN(cL)>>))), Flt1(LTest(FALSE, EFn(C14Fns[f], <<RelN(cX), RelN(cX)>>))),                        \* fn(@.l, @.l)   both arguments the same node (also the empty array)
                   Flt1(LTest(FALSE, EFn(C14Fns[f], <<EFn("value", <<RelN(cX)>>), AbsIdxN(0, cL)>>))),                                 \* fn(value(@.x), $[0].l)   the only @ is inside the inner call
                   Flt1(LTest(FALSE, EFn(C14Fns[f], <<EFn("length", <<RelN(cX)>>), AbsIdxN(1, cL)>>))),                                \* fn(length(@.x), $[1].l)
                   Flt1(LTest(TRUE, EFn(C14Fns[f], <<EFn("count", <<ERel(<<N1(cX), Child(<<SWild>>)>>)>>), AbsIdxN(2, cL)>>))),         \* !fn(count(@.x.*), $[2].l)
                   Flt1(LTest(FALSE, EFn(C14Fns[f], <<RelN(cX), ERel(<<Child(<<SName(cL), SName(<<122, 122>>)>>)>>)>>))),            \* fn(@.x, @['l','zz'])
                   Flt1(LTest(TRUE, EFn(C14Fns[f], <<ERel(<<Child(<<SName(<<122, 122>>), SName(cX)>>)>>), RelN(cL)>>))),             \* !fn(@['zz','x'], @.l)
                   Flt1(LTest(FALSE, EFn(C14Fns[f], <<RelN(cX), EAbs(<<Child(<<SSlice(0, 1, ABSENT)>>), N1(cL)>>)>>))),               \* fn(@.x, $[0:1].l)
                   Flt1(LTest(FALSE, EFn(C14Fns[f], <<RelN(cX), EAbs(<<Child(<<SSlice(0, 1, ABSENT)>>), Child(<<SName(cL), SName(<<122, 122>>)>>)>>)>>))) >>]) \o C14LitQ   \* fn(@.x, $[0:1]['l','zz'])
C14Stride == IF Thorough THEN 1 ELSE 1

(* ---------- C15: member order that only an insertion-ordered Queryable can have ------------- *)
U1 == JObj(<<cB, cA>>, <<JInt(1), JInt(2)>>)
U2 == JObj(<<cX, cB, cA>>, <<JArr(<<JInt(1)>>), JObj(<<cB, cA>>, <<JInt(3), JInt(1)>>), JInt(1)>>)
U3 == JObj(<<<<122>>, <<97, 32, 98>>, cA>>, <<JInt(1), JInt(2), JInt(3)>>)
UEq == JArr(<<JObj(<<cY, cX>>, <<JObj(<<cB, cA>>, <<JInt(2), JInt(1)>>), JObj(<<cA, cB>>, <<JInt(1), JInt(2)>>)>>),
             JObj(<<cX, cY>>, <<JObj(<<cA>>, <<JArr(<<JObj(<<cB, cA>>, <<JInt(1), JInt(2)>>)>>)>>), JObj(<<cA>>, <<JArr(<<JObj(<<cA, cB>>, <<JInt(2), JInt(1)>>)>>)>>)>>),
             JObj(<<cY, cX>>, <<JObj(<<cB, cA>>, <<JInt(2), JInt(1)>>), JObj(<<cA, cB>>, <<JInt(1), JInt(3)>>)>>)>>)
\* objects with MANY members (17: beyond small-size special cases) in two different insertion orders, equal / different in one value
UBig(off, odd) == JObj([i \in 1..17 |-> <<97 + ((i * 5 + off) % 17)>>], [i \in 1..17 |-> JInt(IF (i * 5 + off) % 17 = odd THEN 99 ELSE (i * 5 + off) % 17)])
UEq17 == JArr(<<JObj(<<cY, cX>>, <<UBig(0, 50), UBig(3, 50)>>), JObj(<<cX, cY>>, <<UBig(1, 50), UBig(7, 4)>>), JObj(<<cX, cY>>, <<UBig(2, 50), UBig(11, 50)>>)>>)
WName(i) == <<107, 48 + (i \div 10), 48 + (i % 10)>>                                          \* k00 .. k99
WideObj(n, off, odd) == JObj([i \in 1..n |-> WName((i * 7 + off) % n)], [i \in 1..n |-> JInt(IF (i * 7 + off) % n = odd THEN 999 ELSE (i * 7 + off) % n)])
UEq33 == JArr(<<JObj(<<cY, cX>>, <<WideObj(33, 0, 77), WideObj(33, 5, 77)>>), JObj(<<cX, cY>>, <<WideObj(33, 1, 77), WideObj(33, 9, 4)>>), JObj(<<cX, cY>>, <<WideObj(33, 2, 77), WideObj(33, 20, 77)>>),
               JObj(<<cX>>, <<WideObj(71, 3, 777)>>)>>)
\* the same shape with members in name order (this one also runs on serde_json::Value)
SortedWide(n, odd) == JObj([i \in 1..n |-> WName(i - 1)], [i \in 1..n |-> JInt(IF i - 1 = odd THEN 999 ELSE i - 1)])
UEq33s == JArr(<<JObj(<<cX, cY>>, <<SortedWide(33, 77), SortedWide(33, 77)>>), JObj(<<cX, cY>>, <<SortedWide(33, 77), SortedWide(33, 4)>>), JObj(<<cX, cY>>, <<SortedWide(40, 77), SortedWide(40, 77)>>)>>)
C15Docs == <<UEq33s, U1, U2, U3, UEq, UEq17, UEq33, JArr(<<U1, U2>>), JObj(<<cK, cA>>, <<U2, JArr(<<U3, JInt(1)>>)>>),
             JObj(<<cB, cA>>, <<JObj(<<cB, cA>>, <<JObj(<<cB, cA>>, <<JInt(1), JInt(2)>>), JInt(2)>>), JInt(3)>>)>>
C15Sels == <<SWild, SName(cA), SName(cB), SIndex(0), SFilter(LCmp(">", ERel(<<>>), ELit(JInt(0)))), SFilter(LTest(FALSE, RelN(cA))),
             SFilter(LCmp("==", RelN(cA), ELit(JInt(1)))), SSlice(ABSENT, ABSENT, -1),
             SFilter(LCmp("==", RelN(cX), RelN(cY))), SFilter(LCmp("!=", RelN(cX), RelN(cY))), SFilter(LCmp("<=", RelN(cY), RelN(cX)))>>
C15Segs == [i \in 1..Len(C15Sels) |-> Child(<<C15Sels[i]>>)] \o [i \in 1..Len(C15Sels) |-> Desc(<<C15Sels[i]>>)]
Names16 == [k \in 1..18 |-> SName(<<97 + ((k * 7) % 17)>>)]               \* h o e l b i p f m c j q g n d k a h : 18 selectors, one name twice
C15ManyQ == << <<I1(0), N1(cX), Child(Names16)>>, <<I1(1), N1(cY), Child(Names16)>>, <<I1(0), N1(cY), Child(SubSeq(Names16, 1, 16))>>,
               <<I1(2), N1(cX), Child(SubSeq(Names16, 2, 16))>> >>                                   \* (one input node each: several would re-find D1)
WNames9 == <<SName(WName(7)), SName(WName(5)), SName(WName(60)), SName(WName(5)), SName(WName(0)), SName(WName(70)), SName(WName(7)), SName(WName(33)), SName(WName(99)), SName(WName(5))>>
C15WideQ == << <<I1(3), N1(cX), Child(WNames9)>>, <<I1(3), N1(cX), Child(SubSeq(WNames9, 1, 8))>>, <<I1(0), N1(cX), Child(WNames9)>>,
               Flt1(LCmp("==", EFn("count", <<ERel(<<N1(cX), Child(WNames9)>>)>>), ELit(JInt(8)))) >>
C15Queries == TuplesUpTo(C15Segs, IF Thorough THEN 3 ELSE 2) \o C15ManyQ \o C15WideQ

(* ---------- C01D: deeply nested documents (beyond serde_json's parser limit of 128) ----------- *)
RECURSIVE NestDoc(_, _)
NestDoc(kind, n) == IF n = 0 THEN JInt(1)
                    ELSE IF kind = "obj" \/ (kind = "mix" /\ n % 2 = 0) THEN JObj(<<cA>>, <<NestDoc(kind, n - 1)>>)
                    ELSE JArr(<<NestDoc(kind, n - 1)>>)
C01DDepth == IF Thorough THEN 300 ELSE 133
cV == <<118>>
Bushy == JObj(<<cA, cB, cV>>, <<JObj(<<cA, cB, cV>>, <<JArr(<<JObj(<<cV>>, <<JInt(1)>>), JInt(2)>>), JObj(<<cV>>, <<JInt(3)>>), JInt(4)>>),
                               JArr(<<JObj(<<cA, cV>>, <<JArr(<<JInt(5)>>), JInt(6)>>), JArr(<<JObj(<<cV>>, <<JInt(7)>>)>>)>>), JInt(8)>>)
RECURSIVE NestOver(_, _, _)
NestOver(kind, n, leaf) == IF n = 0 THEN leaf
                           ELSE IF kind = "obj" \/ (kind = "mix" /\ n % 2 = 0) THEN JObj(<<cA>>, <<NestOver(kind, n - 1, leaf)>>)
                           ELSE JArr(<<NestOver(kind, n - 1, leaf)>>)
C01DDocs == <<NestDoc("arr", C01DDepth), NestDoc("obj", C01DDepth), NestDoc("mix", C01DDepth), NestOver("mix", C01DDepth, Bushy), NestOver("obj", 126, Bushy),
              NestOver("obj", 9, Bushy), NestOver("mix", 12, Bushy)>>          \* (the last two: chained descendant segments only - their results grow with the square of the depth)
C01DChained == 3
C01DQueries == << <<Desc(<<SWild>>)>>, <<Desc(<<SIndex(-1), SName(cA)>>)>>, <<Desc(<<SFilter(LTest(FALSE, ERel(<<>>)))>>)>>, <<Desc(<<SName(cV)>>)>>,
                 <<Desc(<<SName(cA)>>), Desc(<<SName(cA)>>)>>, <<Desc(<<SIndex(0)>>), Desc(<<SWild>>)>>, <<Desc(<<SName(cA)>>), Desc(<<SName(cV)>>)>> >>        \* $..a..a : a node is reported once per way of reaching it
                \o (IF Thorough THEN << <<Desc(<<SIndex(0)>>)>>, <<Desc(<<SName(cA)>>)>>, <<Desc(<<SSlice(ABSENT, ABSENT, -1)>>)>> >> ELSE <<>>)

(* ---------- C09D: very deep documents whose Normalized Paths have hundreds of steps (run with Evaluator_light.cfg) ---- *)
C09DDocs == <<NestDoc("mix", IF Thorough THEN 400 ELSE 240), NestDoc("arr", IF Thorough THEN 400 ELSE 240)>>
C09DQueries == << <<Desc(<<SWild>>)>> >>

(* ---------- selection ------------------------------------------------------ *)
Docs    == CASE Univ = "C01" -> C01Docs [] Univ = "C11" -> C11Docs [] Univ = "C03" -> C03Docs [] Univ = "C04" -> C04Docs
             [] Univ = "C05" -> C05Docs [] Univ = "C10" -> C10Docs [] Univ = "C14" -> C14Docs [] Univ = "C15" -> C15Docs [] Univ = "C01D" -> C01DDocs [] Univ = "C09D" -> C09DDocs
Queries == CASE Univ = "C01" -> C01Queries [] Univ = "C11" -> C11Queries [] Univ = "C03" -> C03Queries [] Univ = "C04" -> C04Queries
             [] Univ = "C05" -> C05Queries [] Univ = "C10" -> C10Queries [] Univ = "C14" -> C14Queries [] Univ = "C15" -> C15Queries [] Univ = "C01D" -> C01DQueries [] Univ = "C09D" -> C09DQueries
StrideN == CASE Univ = "C01" -> C01Stride [] Univ = "C11" -> C11Stride [] Univ = "C05" -> C05Stride [] Univ = "C14" -> C14Stride [] OTHER -> 1
Mode    == IF "VERIF_MODE" \in DOMAIN IOEnv THEN IOEnv.VERIF_MODE ELSE CASE Univ = "C03" -> "paths" [] OTHER -> "nodes"
Pick(d, q) == CASE Univ = "C03" -> C03Pick(d, q)
                [] Univ = "C04" -> C04Pick(d, q)
                [] Univ = "C10" -> C10Pick(d, q)
                [] Univ = "C14" -> IF q > Len(C14Queries) - Len(C14LitQ) THEN d = Len(C14Docs) ELSE d < Len(C14Docs)
                [] Univ = "C05" -> IF q <= Len(C05DeepQ) THEN d = 4 ELSE IF q > Len(C05Queries) - Len(C05ChainLx) THEN d = 5 ELSE d <= 3 /\ Stride(StrideN, d, q)
                [] Univ = "C15" -> Len(C15Queries[q]) <= 2 \/ d \notin {1, 6, 7}        \* (three-segment queries, thorough tier: not on the wide documents)
                [] Univ = "C01D" -> IF q \in 5..(4 + C01DChained) THEN d > Len(C01DDocs) - 2 ELSE d <= Len(C01DDocs) - 2
                [] Univ = "C11" -> IF q > Len(C11Queries) - Len(C11CountQ) - Len(C11WildSliceQ) THEN d = Len(C11Docs)
                                   ELSE IF q > Len(C11Queries) - Len(C11CountQ) - Len(C11WildSliceQ) - Len(C11RunQ) - Len(C11TouchQ) THEN TRUE ELSE d < Len(C11Docs) /\ Stride(StrideN, d, q)
                [] OTHER -> Stride(StrideN, d, q)
=============================================================================
