----------------------------- MODULE Universes -----------------------------
(***************************************************************************)
(* The finite universes (documents x queries) explored by the evaluation   *)
(* machine, one per property, selected by the environment variable         *)
(* VERIF_UNIVERSE.  Zero-arity definitions are evaluated lazily and cached  *)
(* by TLC, so only the selected universe is ever built.  (Universes must    *)
(* NOT be passed through CONSTANT <- substitution: TLC re-evaluates the     *)
(* substituted expression at every use - measured 3 ms per access.)         *)
(***************************************************************************)
EXTENDS Universe

Univ == IF "VERIF_UNIVERSE" \in DOMAIN IOEnv THEN IOEnv.VERIF_UNIVERSE ELSE "C01"

(* ---------- C01 / C02 / C12 / C15: structural selectors ------------------ *)
S0 == <<JNull, JBool(TRUE), JInt(0), JInt(1), JStr(cA), JStr(<<>>), JArr(<<>>), JObj(<<>>, <<>>)>>
R0 == <<JNull, JInt(1), JStr(cA), JArr(<<>>)>>
Names == <<cA, cB>>
L1 == DedupSeq(S0 \o ArraysOver(IF Thorough THEN S0 ELSE R0, 2) \o ObjectsOver(Names, IF Thorough THEN S0 ELSE R0))
R1 == <<JInt(1), JArr(<<JInt(1)>>), JArr(<<JStr(cA), JInt(1)>>), JObj(<<cA>>, <<JInt(1)>>),
        JObj(<<cA, cB>>, <<JInt(1), JStr(cA)>>), JArr(<<JArr(<<>>)>>)>>
R1T == R1 \o <<JObj(<<cB>>, <<JNull>>), JArr(<<JInt(0), JInt(1)>>), JObj(<<cA>>, <<JObj(<<cA>>, <<JInt(1)>>)>>), JStr(cA)>>
L2 == ArraysOver(IF Thorough THEN R1T ELSE R1, 2) \o ObjectsOver(Names, IF Thorough THEN R1T ELSE R1)

RelA == ERel(<<N1(cA)>>)
Filters == <<LTest(FALSE, RelA),                                   \* ?@.a
             LCmp("==", ERel(<<>>), ELit(JInt(1))),                \* ?@==1
             LCmp("==", RelA, ELit(JInt(1))),                      \* ?@.a==1
             LTest(TRUE, RelA),                                    \* ?!@.a
             LTest(FALSE, EAbs(<<N1(cB)>>)),                       \* ?$.b
             LTest(FALSE, ERel(<<Child(<<SFilter(LTest(FALSE, RelA))>>)>>)), \* ?@[?@.a]
             LCmp(">", EFn("length", <<ERel(<<>>)>>), ELit(JInt(1))),     \* ?length(@)>1
             LTest(FALSE, ERel(<<Child(<<SWild>>)>>))>>             \* ?@.*
Sels1 == <<SName(cA), SName(cB), SIndex(0), SIndex(1), SIndex(-1), SIndex(-3), SWild,
           SSlice(ABSENT, ABSENT, ABSENT), SSlice(1, ABSENT, ABSENT), SSlice(ABSENT, ABSENT, -1), SSlice(0, 1, ABSENT)>>
         \o [i \in 1..Len(Filters) |-> SFilter(Filters[i])]
SelLists == [i \in 1..Len(Sels1) |-> <<Sels1[i]>>]
            \o << <<SName(cA), SName(cB)>>, <<SIndex(0), SIndex(0)>>, <<SWild, SIndex(0)>>,
                  <<SSlice(0, 1, ABSENT), SIndex(-1)>>, <<SName(cB), SWild>>,
                  <<SFilter(Filters[1]), SIndex(1)>> >>
Segs == [i \in 1..Len(SelLists) |-> Child(SelLists[i])] \o [i \in 1..Len(SelLists) |-> Desc(SelLists[i])]


C01Docs == DedupSeq(L1 \o L2)
C01Queries == TuplesUpTo(Segs, IF Thorough THEN 3 ELSE 2)
C01Stride == IF Thorough THEN 40 ELSE 16

(* ---------- selection ------------------------------------------------------ *)
Docs    == CASE Univ = "C01" -> C01Docs
Queries == CASE Univ = "C01" -> C01Queries
StrideN == CASE Univ = "C01" -> C01Stride
Mode    == CASE Univ = "C01" -> "nodes"
Pick(d, q) == Stride(StrideN, d, q)
=============================================================================
