------------------------------ MODULE JPParse ------------------------------
(***************************************************************************)
(* RFC 9535 Appendix A read as a RECOGNISER: a recursive-descent parser    *)
(* over code points that yields the abstract syntax of JPSyntax.tla.       *)
(* Together with WellTyped it decides, for ANY string, whether it is a     *)
(* valid RFC 9535 query (C06/C07/C08), and gives every valid string its    *)
(* semantics Denote(Parse(s), doc) (trace validation of arbitrary queries).*)
(* It is an independent second formulation of the grammar: Grammar.tla     *)
(* (the generator) is cross-checked against it by TLC.                     *)
(*                                                                         *)
(* Verdict(s) \in {"valid", "invalid", "unscoped"}; "unscoped" marks the   *)
(* strings the properties do not speak about (function names the RFC does  *)
(* not define, blank space inside the brackets of a singular query used as *)
(* comparable, number literals beyond the modelled precision).             *)
(***************************************************************************)
EXTENDS JPSemantics

IsB(c) == c \in {32, 9, 10, 13}
\* Scanners advance in chunks of 64 positions: a recursion as deep as the run is long makes TLC quadratic in the length of
\* the run (thousands of blanks, member names of thousands of characters).
FirstOf(S) == CHOOSE j \in S : \A k \in S : j <= k
ChunkEnd(p, i) == IF i + 63 <= Len(p) THEN i + 63 ELSE Len(p)
RECURSIVE SkipS(_, _)
SkipS(p, i) == IF i > Len(p) THEN i
               ELSE LET stop == {j \in i..ChunkEnd(p, i) : ~IsB(p[j])} IN IF stop = {} THEN SkipS(p, ChunkEnd(p, i) + 1) ELSE FirstOf(stop)

IsDigit(c) == c >= 48 /\ c <= 57
IsAlphaC(c) == (c >= 65 /\ c <= 90) \/ (c >= 97 /\ c <= 122)
IsLc(c) == c >= 97 /\ c <= 122
IsNameFirst(c) == IsAlphaC(c) \/ c = 95 \/ (c >= 128 /\ c <= 55295) \/ (c >= 57344 /\ c <= 1114111)
IsNameChar(c) == IsNameFirst(c) \/ IsDigit(c)
IsFnChar(c) == IsLc(c) \/ c = 95 \/ IsDigit(c)

RECURSIVE ScanDigits(_, _)
ScanDigits(p, i) == IF i > Len(p) THEN i
                    ELSE LET stop == {j \in i..ChunkEnd(p, i) : ~IsDigit(p[j])} IN IF stop = {} THEN ScanDigits(p, ChunkEnd(p, i) + 1) ELSE FirstOf(stop)
RECURSIVE ScanName(_, _)
ScanName(p, i) == IF i > Len(p) THEN i
                  ELSE LET stop == {j \in i..ChunkEnd(p, i) : ~IsNameChar(p[j])} IN IF stop = {} THEN ScanName(p, ChunkEnd(p, i) + 1) ELSE FirstOf(stop)
RECURSIVE ScanFn(_, _)
ScanFn(p, i) == IF i > Len(p) THEN i
                ELSE LET stop == {j \in i..ChunkEnd(p, i) : ~IsFnChar(p[j])} IN IF stop = {} THEN ScanFn(p, ChunkEnd(p, i) + 1) ELSE FirstOf(stop)

StartsWith(p, i, w) == i + Len(w) - 1 <= Len(p) /\ SubSeq(p, i, i + Len(w) - 1) = w

(* ---------- integers ------------------------------------------------------ *)
RECURSIVE DigitsVal(_)
DigitsVal(d) == IF d = <<>> THEN 0 ELSE 10 * DigitsVal(SubSeq(d, 1, Len(d) - 1)) + (d[Len(d)] - 48)
LARGE == BIG - 3                      \* "some integer in the I-JSON range far beyond any array length"
MagOfDigits(d) ==                     \* d: digit string without sign, no leading zeros (or "0")
  IF Len(d) <= 9 THEN DigitsVal(d)
  ELSE IF Len(d) < 16 THEN LARGE
  ELSE IF Len(d) > 16 THEN BIG + 2     \* out of range
  ELSE IF \E k \in {0 - 2, 0 - 1, 0, 1, 2} : d = BigDigits(k)
       THEN BIG + (CHOOSE k \in {0 - 2, 0 - 1, 0, 1, 2} : d = BigDigits(k))
  ELSE IF StrLt(d, BigDigits(0)) THEN LARGE ELSE BIG + 2

\* int = "0" / (["-"] DIGIT1 *DIGIT)
PInt(p, i) ==
  LET neg == At(p, i) = 45
      s == IF neg THEN i + 1 ELSE i
      j == ScanDigits(p, s)
      d == SubSeq(p, s, j - 1)
      ok == j > s /\ (d = <<48>> => ~neg) /\ (Len(d) > 1 => d[1] # 48)
  IN [ok |-> ok, i |-> j, n |-> IF ok THEN (IF neg THEN 0 - MagOfDigits(d) ELSE MagOfDigits(d)) ELSE 0]

(* ---------- string literals ------------------------------------------------ *)
HexVal(c) == IF IsDigit(c) THEN c - 48
             ELSE IF c >= 65 /\ c <= 70 THEN c - 55
             ELSE IF c >= 97 /\ c <= 102 THEN c - 87 ELSE 0 - 1
Hex4At(p, i) == IF i + 3 <= Len(p) /\ \A k \in 0..3 : HexVal(p[i + k]) >= 0
                THEN 4096 * HexVal(p[i]) + 256 * HexVal(p[i + 1]) + 16 * HexVal(p[i + 2]) + HexVal(p[i + 3])
                ELSE 0 - 1
IsUnescaped(c) == (c >= 32 /\ c <= 33) \/ (c >= 35 /\ c <= 38) \/ (c >= 40 /\ c <= 91)
                  \/ (c >= 93 /\ c <= 55295) \/ (c >= 57344 /\ c <= 1114111)
\* body of a string literal quoted with q, starting at i; result position is after the closing quote
\* end of the run of characters that stand for themselves inside quotes q, from i on (chunked, see SkipS)
IsPlainIn(c, q) == c # q /\ c # 92 /\ (IsUnescaped(c) \/ c \in {34, 39})
RECURSIVE ScanPlain(_, _, _)
ScanPlain(p, i, q) == IF i > Len(p) THEN i
                      ELSE LET stop == {j \in i..ChunkEnd(p, i) : ~IsPlainIn(p[j], q)} IN IF stop = {} THEN ScanPlain(p, ChunkEnd(p, i) + 1, q) ELSE FirstOf(stop)
RECURSIVE PStrBody(_, _, _, _)
PStrBody(p, i, q, acc) ==
  LET c == At(p, i) IN
  IF c < 0 THEN [ok |-> FALSE, i |-> i, s |-> acc]
  ELSE IF c = q THEN [ok |-> TRUE, i |-> i + 1, s |-> acc]
  ELSE IF IsPlainIn(c, q) /\ IsPlainIn(At(p, i + 1), q) THEN            \* a run of >= 2 plain characters is taken at once
    LET j == ScanPlain(p, i, q) IN PStrBody(p, j, q, acc \o SubSeq(p, i, j - 1))
  ELSE IF c = 92 THEN
    LET e == At(p, i + 1) IN
    CASE e = q   -> PStrBody(p, i + 2, q, Append(acc, q))
      [] e = 98  -> PStrBody(p, i + 2, q, Append(acc, 8))
      [] e = 102 -> PStrBody(p, i + 2, q, Append(acc, 12))
      [] e = 110 -> PStrBody(p, i + 2, q, Append(acc, 10))
      [] e = 114 -> PStrBody(p, i + 2, q, Append(acc, 13))
      [] e = 116 -> PStrBody(p, i + 2, q, Append(acc, 9))
      [] e = 47  -> PStrBody(p, i + 2, q, Append(acc, 47))
      [] e = 92  -> PStrBody(p, i + 2, q, Append(acc, 92))
      [] e = 117 ->
           LET h == Hex4At(p, i + 2) IN
           IF h < 0 THEN [ok |-> FALSE, i |-> i, s |-> acc]
           ELSE IF h >= 55296 /\ h <= 56319 THEN            \* high surrogate: needs \u + low surrogate
             LET l == IF At(p, i + 6) = 92 /\ At(p, i + 7) = 117 THEN Hex4At(p, i + 8) ELSE 0 - 1 IN
             IF l >= 56320 /\ l <= 57343
             THEN PStrBody(p, i + 12, q, Append(acc, 65536 + (h - 55296) * 1024 + (l - 56320)))
             ELSE [ok |-> FALSE, i |-> i, s |-> acc]
           ELSE IF h >= 56320 /\ h <= 57343 THEN [ok |-> FALSE, i |-> i, s |-> acc]   \* lone low surrogate
           ELSE PStrBody(p, i + 6, q, Append(acc, h))
      [] OTHER -> [ok |-> FALSE, i |-> i, s |-> acc]
  ELSE IF IsUnescaped(c) \/ (c \in {34, 39} /\ c # q) THEN PStrBody(p, i + 1, q, Append(acc, c))
  ELSE [ok |-> FALSE, i |-> i, s |-> acc]
PStr(p, i) == IF At(p, i) \in {34, 39} THEN PStrBody(p, i + 1, p[i], <<>>) ELSE [ok |-> FALSE, i |-> i, s |-> <<>>]

(* ---------- number literals -------------------------------------------------- *)
RECURSIVE StripTrailCh(_)
StripTrailCh(d) == IF Len(d) > 1 /\ d[Len(d)] = 48 THEN StripTrailCh(SubSeq(d, 1, Len(d) - 1)) ELSE d
RECURSIVE StripLeadCh(_)
StripLeadCh(d) == IF Len(d) > 1 /\ d[1] = 48 THEN StripLeadCh(Tail(d)) ELSE d
\* number = (int / "-0") [frac] [exp];  value m * 10^e; sem = FALSE if beyond the modelled precision
PNum(p, i) ==
  LET neg == At(p, i) = 45
      s == IF neg THEN i + 1 ELSE i
      j == ScanDigits(p, s)
      ip == SubSeq(p, s, j - 1)
      intok == j > s /\ (Len(ip) > 1 => ip[1] # 48)
      hasfrac == At(p, j) = 46
      k == IF hasfrac THEN ScanDigits(p, j + 1) ELSE j
      fp == IF hasfrac THEN SubSeq(p, j + 1, k - 1) ELSE <<>>
      fracok == hasfrac => k > j + 1
      hasexp == At(p, k) \in {101, 69}
      es == IF hasexp /\ At(p, k + 1) \in {43, 45} THEN k + 2 ELSE k + 1
      ee == IF hasexp THEN ScanDigits(p, es) ELSE k
      ed == IF hasexp THEN SubSeq(p, es, ee - 1) ELSE <<>>
      expok == hasexp => ee > es
      ok == intok /\ fracok /\ expok
      isfloat == hasfrac \/ hasexp
      \* all mantissa digits without leading zeros; up to 8 of them fit the integer field, the rest goes to JNumX's digit string.
      \* The exponent is kept to two digits (beyond e308 the literal is not a finite double).
      all == StripLeadCh(ip \o fp)
      \* at most 15 significant digits: there, and only there, different decimals are different doubles (the implementation
      \* compares doubles, the specification decimals; with 16-17 digits two spellings may name one double)
      sem == Len(ed) <= 2 /\ Len(StripTrailCh(all)) <= 15 /\ Len(all) <= 40 /\ (isfloat \/ Len(ip) <= 15)      \* integer literals stay below 2^53
      ev == IF hasexp THEN (IF At(p, k + 1) = 45 THEN 0 - DigitsVal(ed) ELSE DigitsVal(ed)) ELSE 0
      hi == SubSeq(all, 1, Min2(8, Len(all)))
      lo == SubSeq(all, Len(hi) + 1, Len(all))
      m == DigitsVal(hi)
  IN [ok |-> ok, i |-> ee, sem |-> sem,
      v |-> IF ok /\ sem THEN (IF lo = <<>> THEN JNum(IF neg THEN 0 - m ELSE m, ev - Len(fp), isfloat)
                                ELSE JNumX(IF neg THEN 0 - m ELSE m, lo, ev - Len(fp), isfloat))
            ELSE [Blank EXCEPT !.t = "bignum"]]

(* ---------- the mutually recursive part ---------------------------------------- *)
\* results: [ok, i, ...payload]; a failed result has ok = FALSE and an arbitrary payload of the right shape
SegB(desc, sels, bs) == [desc |-> desc, sels |-> sels, bs |-> bs]
FailSel == [ok |-> FALSE, i |-> 0, sel |-> SWild]
FailSeg == [ok |-> FALSE, i |-> 0, sg |-> SegB(FALSE, <<>>, FALSE)]
FailSegs == [ok |-> FALSE, i |-> 0, segs |-> <<>>]
FailLx == [ok |-> FALSE, i |-> 0, x |-> LxBlank]
FailEx == [ok |-> FALSE, i |-> 0, e |-> ExprBlank, sem |-> TRUE]

CmpOpAt(p, i) == CASE StartsWith(p, i, <<61, 61>>) -> "=="
                   [] StartsWith(p, i, <<33, 61>>) -> "!="
                   [] StartsWith(p, i, <<60, 61>>) -> "<="
                   [] StartsWith(p, i, <<62, 61>>) -> ">="
                   [] At(p, i) = 60 -> "<"
                   [] At(p, i) = 62 -> ">"
                   [] OTHER -> ""
OpLen(op) == IF op \in {"<", ">"} THEN 1 ELSE 2

FnNames == <<"length", "count", "value", "match", "search", "in", "nin", "none_of", "any_of", "subset_of">>
FnOfCP(w) == IF \E n \in 1..Len(FnNames) : FnNameCP(FnNames[n]) = w
             THEN FnNames[CHOOSE n \in 1..Len(FnNames) : FnNameCP(FnNames[n]) = w] ELSE "?"

RECURSIVE PSel(_, _), PBracket(_, _, _, _), PSegment(_, _), PSegs(_, _, _), POr(_, _, _), PAnd(_, _, _),
          PBasic(_, _), POperand(_, _), PArgs(_, _, _)

\* selector at position i (no leading blanks)
PSel(p, i) ==
  LET c == At(p, i) IN
  IF c \in {34, 39} THEN LET s == PStr(p, i) IN [ok |-> s.ok, i |-> s.i, sel |-> SName(s.s)]
  ELSE IF c = 42 THEN [ok |-> TRUE, i |-> i + 1, sel |-> SWild]
  ELSE IF c = 63 THEN LET x == POr(p, SkipS(p, i + 1), <<>>) IN [ok |-> x.ok, i |-> x.i, sel |-> SFilter(x.x)]
  ELSE
    \* slice-selector = [start S] ":" S [end S] [":" [S step]]   /   index-selector = int
    LET hasStart == c = 45 \/ IsDigit(c)
        a == IF hasStart THEN PInt(p, i) ELSE [ok |-> TRUE, i |-> i, n |-> ABSENT]
        j == SkipS(p, a.i)
    IN IF ~a.ok THEN FailSel
       ELSE IF At(p, j) # 58 THEN (IF hasStart THEN [ok |-> TRUE, i |-> a.i, sel |-> SIndex(a.n)] ELSE FailSel)
       ELSE
         LET k == SkipS(p, j + 1)
             hasEnd == At(p, k) = 45 \/ IsDigit(At(p, k))
             b == IF hasEnd THEN PInt(p, k) ELSE [ok |-> TRUE, i |-> j + 1, n |-> ABSENT]
             k2 == SkipS(p, b.i)
             hasColon2 == At(p, k2) = 58
             k3 == SkipS(p, k2 + 1)
             hasStep == hasColon2 /\ (At(p, k3) = 45 \/ IsDigit(At(p, k3)))
             st == IF hasStep THEN PInt(p, k3) ELSE [ok |-> TRUE, i |-> (IF hasColon2 THEN k2 + 1 ELSE b.i), n |-> ABSENT]
         IN IF ~b.ok \/ ~st.ok THEN FailSel
            ELSE [ok |-> TRUE, i |-> st.i, sel |-> SSlice(a.n, b.n, st.n)]

\* "[" S selector *(S "," S selector) S "]"  -- called with i after the "[" ; bs: blank space seen inside
PBracket(p, i, acc, bs) ==
  LET j == SkipS(p, i)
      s == PSel(p, j)
  IN IF ~s.ok THEN FailSeg
     ELSE LET k == SkipS(p, s.i)
              bs2 == bs \/ j > i \/ k > s.i
          IN IF At(p, k) = 44 THEN PBracket(p, k + 1, Append(acc, s.sel), bs2)
             ELSE IF At(p, k) = 93 THEN [ok |-> TRUE, i |-> k + 1, sg |-> SegB(FALSE, Append(acc, s.sel), bs2)]
             ELSE FailSeg

Shorthand(p, i) == IF IsNameFirst(At(p, i)) THEN LET j == ScanName(p, i + 1) IN [ok |-> TRUE, i |-> j, n |-> SubSeq(p, i, j - 1)]
                   ELSE [ok |-> FALSE, i |-> i, n |-> <<>>]

\* segment = child-segment / descendant-segment, at position i (no leading blanks)
PSegment(p, i) ==
  IF At(p, i) = 91 THEN PBracket(p, i + 1, <<>>, FALSE)
  ELSE IF StartsWith(p, i, <<46, 46>>) THEN
    LET c == At(p, i + 2) IN
    IF c = 91 THEN LET b == PBracket(p, i + 3, <<>>, FALSE) IN [b EXCEPT !.sg.desc = TRUE]
    ELSE IF c = 42 THEN [ok |-> TRUE, i |-> i + 3, sg |-> SegB(TRUE, <<SWild>>, FALSE)]
    ELSE LET n == Shorthand(p, i + 2) IN [ok |-> n.ok, i |-> n.i, sg |-> SegB(TRUE, <<SName(n.n)>>, FALSE)]
  ELSE IF At(p, i) = 46 THEN
    LET c == At(p, i + 1) IN
    IF c = 42 THEN [ok |-> TRUE, i |-> i + 2, sg |-> SegB(FALSE, <<SWild>>, FALSE)]
    ELSE LET n == Shorthand(p, i + 1) IN [ok |-> n.ok, i |-> n.i, sg |-> SegB(FALSE, <<SName(n.n)>>, FALSE)]
  ELSE FailSeg

\* segments = *(S segment): stops (without consuming blanks) where no segment starts
PSegs(p, i, acc) ==
  LET j == SkipS(p, i) IN
  IF At(p, j) \in {91, 46}
  THEN LET s == PSegment(p, j) IN IF s.ok THEN PSegs(p, s.i, Append(acc, s.sg)) ELSE FailSegs
  ELSE [ok |-> TRUE, i |-> i, segs |-> acc]

\* literal / filter-query / function-expr at position i
POperand(p, i) ==
  LET c == At(p, i) IN
  IF c \in {36, 64} THEN
    LET s == PSegs(p, i + 1, <<>>) IN [ok |-> s.ok, i |-> s.i, e |-> EQuery(c = 36, s.segs), sem |-> TRUE]
  ELSE IF c \in {34, 39} THEN
    LET s == PStr(p, i) IN [ok |-> s.ok, i |-> s.i, e |-> ELit(JStr(s.s)), sem |-> TRUE]
  ELSE IF c = 45 \/ IsDigit(c) THEN
    LET n == PNum(p, i) IN [ok |-> n.ok, i |-> n.i, e |-> ELit(n.v), sem |-> n.sem]
  ELSE IF IsLc(c) THEN
    LET j == ScanFn(p, i)
        w == SubSeq(p, i, j - 1)
    IN IF At(p, j) = 40 THEN
         LET k == SkipS(p, j + 1) IN
         IF At(p, k) = 41 THEN [ok |-> TRUE, i |-> k + 1, e |-> EFn(FnOfCP(w), <<>>), sem |-> TRUE]
         ELSE LET a == PArgs(p, k, <<>>) IN [ok |-> a.ok, i |-> a.i, e |-> EFn(FnOfCP(w), a.args), sem |-> a.sem]
       ELSE IF w = <<116, 114, 117, 101>> THEN [ok |-> TRUE, i |-> j, e |-> ELit(JBool(TRUE)), sem |-> TRUE]
       ELSE IF w = <<102, 97, 108, 115, 101>> THEN [ok |-> TRUE, i |-> j, e |-> ELit(JBool(FALSE)), sem |-> TRUE]
       ELSE IF w = <<110, 117, 108, 108>> THEN [ok |-> TRUE, i |-> j, e |-> ELit(JNull), sem |-> TRUE]
       ELSE FailEx
  ELSE FailEx

\* function-argument *(S "," S function-argument) S ")"  -- i at the first argument
\* an argument is parsed as a logical-or-expr in which a bare literal is allowed; a bare un-negated
\* test is unwrapped to the literal / query / function it consists of
PArgs(p, i, acc) ==
  LET x == POr(p, i, <<>>) IN
  IF ~x.ok THEN [ok |-> FALSE, i |-> 0, args |-> <<>>, sem |-> TRUE]
  ELSE LET arg == IF x.x.k = "test" /\ ~x.x.neg THEN x.x.es[1] ELSE ELx(x.x)
           k == SkipS(p, x.i)
       IN IF At(p, k) = 44 THEN PArgs(p, SkipS(p, k + 1), Append(acc, arg))
          ELSE IF At(p, k) = 41 THEN [ok |-> TRUE, i |-> k + 1, args |-> Append(acc, arg), sem |-> TRUE]
          ELSE [ok |-> FALSE, i |-> 0, args |-> <<>>, sem |-> TRUE]

\* basic-expr = paren-expr / comparison-expr / test-expr
PBasic(p, i) ==
  LET c == At(p, i) IN
  IF c = 33 \/ c = 40 THEN
    LET neg == c = 33
        j == IF neg THEN SkipS(p, i + 1) ELSE i
    IN IF At(p, j) = 40 THEN
         LET x == POr(p, SkipS(p, j + 1), <<>>)
             k == SkipS(p, x.i)
         IN IF x.ok /\ At(p, k) = 41 THEN [ok |-> TRUE, i |-> k + 1, x |-> LParen(neg, x.x)] ELSE FailLx
       ELSE LET e == POperand(p, j) IN        \* here neg = TRUE: a negated test-expr
            IF e.ok THEN [ok |-> TRUE, i |-> e.i, x |-> LTest(TRUE, e.e)] ELSE FailLx
  ELSE
    LET e == POperand(p, i) IN
    IF ~e.ok THEN FailLx
    ELSE LET j == SkipS(p, e.i)
             op == CmpOpAt(p, j)
         IN IF op # "" THEN
              LET r == POperand(p, SkipS(p, j + OpLen(op))) IN
              IF r.ok THEN [ok |-> TRUE, i |-> r.i, x |-> LCmp(op, e.e, r.e)] ELSE FailLx
            ELSE [ok |-> TRUE, i |-> e.i, x |-> LTest(FALSE, e.e)]

\* logical-and-expr = basic-expr *(S "&&" S basic-expr)
PAnd(p, i, acc) ==
  LET b == PBasic(p, i) IN
  IF ~b.ok THEN FailLx
  ELSE LET j == SkipS(p, b.i) IN
       IF StartsWith(p, j, <<38, 38>>) THEN PAnd(p, SkipS(p, j + 2), Append(acc, b.x))
       ELSE [ok |-> TRUE, i |-> b.i, x |-> IF acc = <<>> THEN b.x ELSE LAnd(Append(acc, b.x))]
\* logical-or-expr = logical-and-expr *(S "||" S logical-and-expr)
POr(p, i, acc) ==
  LET a == PAnd(p, i, <<>>) IN
  IF ~a.ok THEN FailLx
  ELSE LET j == SkipS(p, a.i) IN
       IF StartsWith(p, j, <<124, 124>>) THEN POr(p, SkipS(p, j + 2), Append(acc, a.x))
       ELSE [ok |-> TRUE, i |-> a.i, x |-> IF acc = <<>> THEN a.x ELSE LOr(Append(acc, a.x))]

(* ---------- whole queries --------------------------------------------------------- *)
\* jsonpath-query = "$" segments ; the whole string must be consumed
ParseQuery(p) ==
  IF At(p, 1) # 36 THEN [ok |-> FALSE, segs |-> <<>>]
  ELSE LET s == PSegs(p, 2, <<>>) IN [ok |-> s.ok /\ s.i = Len(p) + 1, segs |-> IF s.ok THEN s.segs ELSE <<>>]

\* forget the bookkeeping field bs so that the result is comparable with JPSyntax ASTs
RECURSIVE StripSegs(_), StripLx(_), StripExpr(_)
StripSegs(segs) == [n \in 1..Len(segs) |->
   Seg(segs[n].desc, [m \in 1..Len(segs[n].sels) |->
        LET s == segs[n].sels[m] IN IF s.k = "filter" THEN SFilter(StripLx(s.f[1])) ELSE s])]
StripExpr(e) == CASE e.k = "q"  -> [e EXCEPT !.segs = StripSegs(e.segs)]
                  [] e.k = "fn" -> [e EXCEPT !.args = [n \in 1..Len(e.args) |-> StripExpr(e.args[n])]]
                  [] e.k = "lx" -> ELx(StripLx(e.lx[1]))
                  [] OTHER -> e
StripLx(x) == [x EXCEPT !.xs = [n \in 1..Len(x.xs) |-> StripLx(x.xs[n])],
                        !.es = [n \in 1..Len(x.es) |-> StripExpr(x.es[n])]]
ParseAst(p) == StripSegs(ParseQuery(p).segs)

(* ---------- scope ("the property speaks about this string") ------------------------- *)
RECURSIVE ScopedSegs(_), ScopedLx(_), ScopedExpr(_, _)
ScopedSegs(segs) == \A n \in 1..Len(segs) : \A m \in 1..Len(segs[n].sels) :
                       segs[n].sels[m].k = "filter" => ScopedLx(segs[n].sels[m].f[1])
\* cmp: is the expression an operand of a comparison / a ValueType argument?
ScopedExpr(e, cmp) ==
  CASE e.k = "q"  -> ScopedSegs(e.segs) /\ (cmp => \A n \in 1..Len(e.segs) : ~e.segs[n].bs)
    [] e.k = "fn" -> e.fname \in StdFns /\ \A n \in 1..Len(e.args) : ScopedExpr(e.args[n], FALSE)
    [] e.k = "lx" -> ScopedLx(e.lx[1])
    [] OTHER -> e.v.t # "bignum"          \* number literal beyond the modelled precision
ScopedLx(x) == /\ \A n \in 1..Len(x.xs) : ScopedLx(x.xs[n])
               /\ \A n \in 1..Len(x.es) : ScopedExpr(x.es[n], x.k = "cmp")

Verdict(p) ==
  LET r == ParseQuery(p) IN
  IF ~r.ok THEN "invalid"
  ELSE IF ~ScopedSegs(r.segs) THEN "unscoped"
  ELSE IF WellTyped(StripSegs(r.segs)) THEN "valid" ELSE "invalid"
=============================================================================
