---- MODULE tq_TTrace_1790527570 ----
EXTENDS Sequences, TLCExt, Toolbox, Naturals, TLC, tq

_expression ==
    LET tq_TEExpression == INSTANCE tq_TEExpression
    IN tq_TEExpression!expression
----

_trace ==
    LET tq_TETrace == INSTANCE tq_TETrace
    IN tq_TETrace!trace
----

_inv ==
    ~(
        TLCGet("level") = Len(_TETrace)
        /\
        cur = (1)
        /\
        pc = ("idle")
        /\
        calls = (2)
        /\
        ent = ("parse_json_path")
    )
----

_init ==
    /\ ent = _TETrace[1].ent
    /\ calls = _TETrace[1].calls
    /\ pc = _TETrace[1].pc
    /\ cur = _TETrace[1].cur
----

_next ==
    /\ \E i,j \in DOMAIN _TETrace:
        /\ \/ /\ j = i + 1
              /\ i = TLCGet("level")
        /\ ent  = _TETrace[i].ent
        /\ ent' = _TETrace[j].ent
        /\ calls  = _TETrace[i].calls
        /\ calls' = _TETrace[j].calls
        /\ pc  = _TETrace[i].pc
        /\ pc' = _TETrace[j].pc
        /\ cur  = _TETrace[i].cur
        /\ cur' = _TETrace[j].cur

\* Uncomment the ASSUME below to write the states of the error trace
\* to the given file in Json format. Note that you can pass any tuple
\* to `JsonSerialize`. For example, a sub-sequence of _TETrace.
    \* ASSUME
    \*     LET J == INSTANCE Json
    \*         IN J!JsonSerialize("tq_TTrace_1790527570.json", _TETrace)

=============================================================================

 Note that you can extract this module `tq_TEExpression`
  to a dedicated file to reuse `expression` (the module in the 
  dedicated `tq_TEExpression.tla` file takes precedence 
  over the module `tq_TEExpression` below).

---- MODULE tq_TEExpression ----
EXTENDS Sequences, TLCExt, Toolbox, Naturals, TLC, tq

expression == 
    [
        \* To hide variables of the `tq` spec from the error trace,
        \* remove the variables below.  The trace will be written in the order
        \* of the fields of this record.
        ent |-> ent
        ,calls |-> calls
        ,pc |-> pc
        ,cur |-> cur
        
        \* Put additional constant-, state-, and action-level expressions here:
        \* ,_stateNumber |-> _TEPosition
        \* ,_entUnchanged |-> ent = ent'
        
        \* Format the `ent` variable as Json value.
        \* ,_entJson |->
        \*     LET J == INSTANCE Json
        \*     IN J!ToJson(ent)
        
        \* Lastly, you may build expressions over arbitrary sets of states by
        \* leveraging the _TETrace operator.  For example, this is how to
        \* count the number of times a spec variable changed up to the current
        \* state in the trace.
        \* ,_entModCount |->
        \*     LET F[s \in DOMAIN _TETrace] ==
        \*         IF s = 1 THEN 0
        \*         ELSE IF _TETrace[s].ent # _TETrace[s-1].ent
        \*             THEN 1 + F[s-1] ELSE F[s-1]
        \*     IN F[_TEPosition - 1]
    ]

=============================================================================



Parsing and semantic processing can take forever if the trace below is long.
 In this case, it is advised to uncomment the module below to deserialize the
 trace from a generated binary file.

\*
\*---- MODULE tq_TETrace ----
\*EXTENDS IOUtils, TLC, tq
\*
\*trace == IODeserialize("tq_TTrace_1790527570.bin", TRUE)
\*
\*=============================================================================
\*

---- MODULE tq_TETrace ----
EXTENDS TLC, tq

trace == 
    <<
    ([cur |-> 0,pc |-> "idle",calls |-> 0,ent |-> ""]),
    ([cur |-> 1,pc |-> "inCall",calls |-> 1,ent |-> "parse_json_path"]),
    ([cur |-> 1,pc |-> "idle",calls |-> 1,ent |-> "parse_json_path"]),
    ([cur |-> 1,pc |-> "inCall",calls |-> 2,ent |-> "parse_json_path"]),
    ([cur |-> 1,pc |-> "idle",calls |-> 2,ent |-> "parse_json_path"])
    >>
----


=============================================================================

---- CONFIG tq_TTrace_1790527570 ----

INVARIANT
    _inv

CHECK_DEADLOCK
    \* CHECK_DEADLOCK off because of PROPERTY or INVARIANT above.
    FALSE

INIT
    _init

NEXT
    _next

CONSTANT
    _TETrace <- _trace

ALIAS
    _expression
=============================================================================
\* Generated on Sun Sep 27 16:47:38 UTC 2026