INIT Init
NEXT Next
INVARIANTS GenSound GenSoundNeg SpellingSame RoundTrip Export
CHECK_DEADLOCK FALSE
