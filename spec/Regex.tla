------------------------------- MODULE Regex -------------------------------
(***************************************************************************)
(* A core of I-Regexp (RFC 9485) plus the anchors ^ and $ that the         *)
(* implementation's dialect (Rust `regex`) also has: abstract syntax,      *)
(* matching by the textbook split semantics, rendering to pattern text.    *)
(*   match(s, p)  is true iff the ENTIRE string s matches p                *)
(*   search(s, p) is true iff SOME substring of s matches p                *)
(***************************************************************************)
EXTENDS JsonModel

ReBlank == [k |-> "eps", c |-> 0, set |-> <<>>, xs |-> <<>>, lo |-> 0, hi |-> 0]
RChr(c)   == [ReBlank EXCEPT !.k = "chr", !.c = c]
RAny      == [ReBlank EXCEPT !.k = "any"]
RCls(set) == [ReBlank EXCEPT !.k = "cls", !.set = set]      \* set: sequence of <<lo, hi>> ranges
RNcls(set) == [ReBlank EXCEPT !.k = "ncls", !.set = set]
RCat(xs)  == [ReBlank EXCEPT !.k = "cat", !.xs = xs]
RAlt(xs)  == [ReBlank EXCEPT !.k = "alt", !.xs = xs]
RStar(r)  == [ReBlank EXCEPT !.k = "star", !.xs = <<r>>]
RPlus(r)  == [ReBlank EXCEPT !.k = "plus", !.xs = <<r>>]
ROpt(r)   == [ReBlank EXCEPT !.k = "opt", !.xs = <<r>>]
RGrp(r)   == [ReBlank EXCEPT !.k = "grp", !.xs = <<r>>]
RRep(r, lo, hi) == [ReBlank EXCEPT !.k = "rep", !.xs = <<r>>, !.lo = lo, !.hi = hi]      \* r{lo,hi}; hi = -1: unbounded
RBol      == [ReBlank EXCEPT !.k = "bol"]
REol      == [ReBlank EXCEPT !.k = "eol"]
REps      == ReBlank

InSet(c, set) == \E i \in 1..Len(set) : set[i][1] <= c /\ c <= set[i][2]

\* r matches exactly the substring of s between positions i and j (0 <= i <= j <= Len(s))
RECURSIVE M(_, _, _, _)
M(r, s, i, j) ==
  CASE r.k = "eps"  -> i = j
    [] r.k = "chr"  -> j = i + 1 /\ s[j] = r.c
    [] r.k = "any"  -> j = i + 1 /\ s[j] \notin {10, 13}        \* RFC 9485: "." excludes LF and CR
    [] r.k = "cls"  -> j = i + 1 /\ InSet(s[j], r.set)
    [] r.k = "ncls" -> j = i + 1 /\ ~InSet(s[j], r.set)
    [] r.k = "bol"  -> i = j /\ i = 0
    [] r.k = "eol"  -> i = j /\ j = Len(s)
    [] r.k = "grp"  -> M(r.xs[1], s, i, j)
    [] r.k = "alt"  -> \E n \in 1..Len(r.xs) : M(r.xs[n], s, i, j)
    [] r.k = "cat"  -> IF Len(r.xs) = 0 THEN i = j
                       ELSE IF Len(r.xs) = 1 THEN M(r.xs[1], s, i, j)
                       ELSE \E m \in i..j : M(r.xs[1], s, i, m) /\ M(RCat(Tail(r.xs)), s, m, j)
    [] r.k = "opt"  -> i = j \/ M(r.xs[1], s, i, j)
    [] r.k = "star" -> i = j \/ \E m \in (i + 1)..j : M(r.xs[1], s, i, m) /\ M(r, s, m, j)
    [] r.k = "rep"  -> IF r.hi = 0 THEN i = j
                       ELSE \/ r.lo = 0 /\ i = j
                            \/ r.lo > 0 /\ i = j /\ M(r.xs[1], s, i, i)
                            \/ \E m \in (i + 1)..j : M(r.xs[1], s, i, m)
                                  /\ M(RRep(r.xs[1], IF r.lo > 0 THEN r.lo - 1 ELSE 0, IF r.hi < 0 THEN r.hi ELSE r.hi - 1), s, m, j)
    [] r.k = "plus" -> \E m \in i..j : M(r.xs[1], s, i, m) /\ M(RStar(r.xs[1]), s, m, j)

ReMatch(r, s)  == M(r, s, 0, Len(s))
ReSearch(r, s) == \E i \in 0..Len(s) : \E j \in i..Len(s) : M(r, s, i, j)


(* ---------- parsing pattern text (recursive descent over code points) ----- *)
\* result: [ok |-> BOOLEAN, r |-> regex, i |-> next position]
MetaChars == {46, 42, 43, 63, 40, 41, 124, 91, 93, 123, 125, 92, 94, 36, 45}   \* . * + ? ( ) | [ ] { } \ ^ $ -
PR(ok, r, i) == [ok |-> ok, r |-> r, i |-> i]
Quantifiers == {42, 43, 63}
ParseMeta == {46, 42, 43, 63, 40, 41, 124, 91, 93, 123, 125, 92}
At(p, i) == IF i <= Len(p) THEN p[i] ELSE 0 - 1

\* class items up to ']' ; ranges a-b ; escapes \c
RECURSIVE ParseClsItems(_, _, _)
ParseClsItems(p, i, acc) ==
  IF i > Len(p) THEN PR(FALSE, REps, i)
  ELSE IF p[i] = 93 THEN (IF acc = <<>> THEN PR(FALSE, REps, i) ELSE PR(TRUE, RCls(acc), i + 1))
  ELSE LET esc == p[i] = 92
           c1  == IF esc THEN At(p, i + 1) ELSE p[i]
           n1  == IF esc THEN i + 2 ELSE i + 1
       IN IF c1 < 0 \/ (~esc /\ p[i] = 91) THEN PR(FALSE, REps, i)
          ELSE IF At(p, n1) = 45 /\ At(p, n1 + 1) \notin {93, 0 - 1}
               THEN LET esc2 == p[n1 + 1] = 92
                        c2 == IF esc2 THEN At(p, n1 + 2) ELSE p[n1 + 1]
                        n2 == IF esc2 THEN n1 + 3 ELSE n1 + 2
                    IN IF c2 < c1 THEN PR(FALSE, REps, i)
                       ELSE ParseClsItems(p, n2, Append(acc, <<c1, c2>>))
               ELSE ParseClsItems(p, n1, Append(acc, <<c1, c1>>))

RECURSIVE ParseAltRe(_, _, _), ParseCatRe(_, _, _), ParseQuantRe(_, _)
ParseAtomRe(p, i) ==
  LET c == At(p, i) IN
  CASE c < 0 -> PR(FALSE, REps, i)
    [] c = 40 -> LET a == ParseAltRe(p, i + 1, <<>>)
                 IN IF a.ok /\ At(p, a.i) = 41 THEN PR(TRUE, RGrp(a.r), a.i + 1) ELSE PR(FALSE, REps, i)
    [] c = 91 -> IF At(p, i + 1) = 94
                 THEN LET a == ParseClsItems(p, i + 2, <<>>)
                      IN IF a.ok THEN PR(TRUE, RNcls(a.r.set), a.i) ELSE a
                 ELSE ParseClsItems(p, i + 1, <<>>)
    [] c = 46 -> PR(TRUE, RAny, i + 1)
    [] c = 92 -> IF At(p, i + 1) \in MetaChars THEN PR(TRUE, RChr(p[i + 1]), i + 2) ELSE PR(FALSE, REps, i)
    [] c \in ParseMeta -> PR(FALSE, REps, i)
    [] OTHER -> PR(TRUE, RChr(c), i + 1)
RECURSIVE ScanNum(_, _)
ScanNum(p, i) == IF At(p, i) >= 48 /\ At(p, i) <= 57 THEN ScanNum(p, i + 1) ELSE i
RECURSIVE NumVal(_)
NumVal(d) == IF d = <<>> THEN 0 ELSE 10 * NumVal(SubSeq(d, 1, Len(d) - 1)) + (d[Len(d)] - 48)
\* counted quantifier at position i (which holds "{"): result [ok, lo, hi, i]
ParseCount(p, i) ==
  LET j == ScanNum(p, i + 1)
      lo == NumVal(SubSeq(p, i + 1, j - 1))
  IN IF j = i + 1 \/ j - i > 6 THEN [ok |-> FALSE, lo |-> 0, hi |-> 0, i |-> i]
     ELSE IF At(p, j) = 125 THEN [ok |-> TRUE, lo |-> lo, hi |-> lo, i |-> j + 1]
     ELSE IF At(p, j) = 44 THEN
       LET k == ScanNum(p, j + 1) IN
       IF At(p, k) # 125 \/ k - j > 6 THEN [ok |-> FALSE, lo |-> 0, hi |-> 0, i |-> i]
       ELSE IF k = j + 1 THEN [ok |-> TRUE, lo |-> lo, hi |-> 0 - 1, i |-> k + 1]
       ELSE LET hi == NumVal(SubSeq(p, j + 1, k - 1)) IN [ok |-> hi >= lo, lo |-> lo, hi |-> hi, i |-> k + 1]
     ELSE [ok |-> FALSE, lo |-> 0, hi |-> 0, i |-> i]
ParseQuantRe(p, i) ==
  LET a == ParseAtomRe(p, i) IN
  IF ~a.ok THEN a
  ELSE IF At(p, a.i) = 123 THEN
       LET c == ParseCount(p, a.i) IN
       IF c.ok /\ At(p, c.i) \notin Quantifiers \cup {123} THEN PR(TRUE, RRep(a.r, c.lo, c.hi), c.i) ELSE PR(FALSE, REps, i)
  ELSE LET q == At(p, a.i) IN
       IF q \in Quantifiers
       THEN IF At(p, a.i + 1) \in Quantifiers THEN PR(FALSE, REps, i)     \* a** is outside I-Regexp
            ELSE PR(TRUE, (CASE q = 42 -> RStar(a.r) [] q = 43 -> RPlus(a.r) [] OTHER -> ROpt(a.r)), a.i + 1)
       ELSE a
ParseCatRe(p, i, acc) ==
  IF At(p, i) \in {0 - 1, 124, 41}
  THEN PR(TRUE, (IF Len(acc) = 0 THEN REps ELSE IF Len(acc) = 1 THEN acc[1] ELSE RCat(acc)), i)
  ELSE LET a == ParseQuantRe(p, i) IN IF a.ok THEN ParseCatRe(p, a.i, Append(acc, a.r)) ELSE a
ParseAltRe(p, i, acc) ==
  LET a == ParseCatRe(p, i, <<>>) IN
  IF ~a.ok THEN a
  ELSE IF At(p, a.i) = 124 THEN ParseAltRe(p, a.i + 1, Append(acc, a.r))
  ELSE PR(TRUE, (IF acc = <<>> THEN a.r ELSE RAlt(Append(acc, a.r))), a.i)

\* ^ and $ are deliberately not parsed: RFC 9485 reads them as literals, Rust `regex` as anchors;
\* patterns containing them are outside the universe (ParseRe says "not ok" and generators avoid them)
ParseRe(p) == IF \E i \in 1..Len(p) : p[i] \in {94, 36} /\ ~(i > 1 /\ p[i - 1] = 91)
              THEN PR(FALSE, REps, 0)
              ELSE LET a == ParseAltRe(p, 1, <<>>) IN IF a.ok /\ a.i = Len(p) + 1 THEN a ELSE PR(FALSE, REps, a.i)

(* ---------- rendering ---------------------------------------------------- *)
RenderCh(c) == IF c \in MetaChars THEN <<92, c>> ELSE <<c>>
RenderRange(p) == IF p[1] = p[2] THEN RenderCh(p[1]) ELSE RenderCh(p[1]) \o <<45>> \o RenderCh(p[2])
RECURSIVE DecDigitsRe(_)
DecDigitsRe(n) == IF n < 10 THEN <<48 + n>> ELSE Append(DecDigitsRe(n \div 10), 48 + (n % 10))
RECURSIVE RenderRe(_)
RenderRe(r) ==
  CASE r.k = "eps"  -> <<>>
    [] r.k = "chr"  -> RenderCh(r.c)
    [] r.k = "any"  -> <<46>>
    [] r.k = "cls"  -> <<91>> \o FlattenSeq([i \in 1..Len(r.set) |-> RenderRange(r.set[i])]) \o <<93>>
    [] r.k = "ncls" -> <<91, 94>> \o FlattenSeq([i \in 1..Len(r.set) |-> RenderRange(r.set[i])]) \o <<93>>
    [] r.k = "bol"  -> <<94>>
    [] r.k = "eol"  -> <<36>>
    [] r.k = "grp"  -> <<40>> \o RenderRe(r.xs[1]) \o <<41>>
    [] r.k = "alt"  -> LET RECURSIVE J(_)
                           J(n) == IF n > Len(r.xs) THEN <<>>
                                   ELSE (IF n > 1 THEN <<124>> ELSE <<>>) \o RenderRe(r.xs[n]) \o J(n + 1)
                       IN J(1)
    [] r.k = "cat"  -> FlattenSeq([i \in 1..Len(r.xs) |-> RenderRe(r.xs[i])])
    [] r.k = "opt"  -> RenderRe(r.xs[1]) \o <<63>>
    [] r.k = "star" -> RenderRe(r.xs[1]) \o <<42>>
    [] r.k = "plus" -> RenderRe(r.xs[1]) \o <<43>>
    [] r.k = "rep"  -> RenderRe(r.xs[1]) \o <<123>> \o DecDigitsRe(r.lo)
                       \o (IF r.hi = r.lo THEN <<>> ELSE <<44>> \o (IF r.hi < 0 THEN <<>> ELSE DecDigitsRe(r.hi))) \o <<125>>

\* precedence discipline so that the rendering re-parses to the same tree:
\* quantifier operands are atoms (chr/any/cls/ncls/grp); cat operands are not alt/cat; alt operands are not alt
IsAtomRe(r) == r.k \in {"chr", "any", "cls", "ncls", "grp"}
RECURSIVE ReShapeOK(_)
ReShapeOK(r) ==
  CASE r.k \in {"star", "plus", "opt", "rep"} -> IsAtomRe(r.xs[1]) /\ ReShapeOK(r.xs[1])
    [] r.k = "grp" -> ReShapeOK(r.xs[1])
    [] r.k = "cat" -> Len(r.xs) >= 2 /\ \A i \in 1..Len(r.xs) : r.xs[i].k \notin {"alt", "cat", "eps"} /\ ReShapeOK(r.xs[i])
    [] r.k = "alt" -> Len(r.xs) >= 2 /\ \A i \in 1..Len(r.xs) : r.xs[i].k # "alt" /\ ReShapeOK(r.xs[i])
    [] OTHER -> TRUE
=============================================================================
