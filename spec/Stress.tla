------------------------------- MODULE Stress -------------------------------
(***************************************************************************)
(* C12 (and C05, C03 under concurrency): the Session machine says that a   *)
(* call returns Denote(query, document) whatever the other threads do.     *)
(* Session.tla lets TLC enumerate every interleaving of two short          *)
(* programs; here the same statement is instantiated for MANY threads that *)
(* all start at the same moment in a FRESH process on inputs the engine    *)
(* has never seen (large array indexes, long member names that differ from *)
(* thread to thread): the table below gives, for every (query, document)   *)
(* row, the one result every thread must obtain in every round.  The       *)
(* machine is small (each thread walks the rows from its own offset) and   *)
(* is model checked for two threads over the first rows; the table is      *)
(* exported once and run by real threads (replay --checks stress).         *)
(***************************************************************************)
EXTENDS Universes, JPParse, TLC, Json

LongName(c) == [i \in 1..40 |-> c]
nA40 == LongName(97)  nB40 == LongName(98)  nC40 == LongName(99)
BigN == IF Thorough THEN 2000 ELSE 600
dBig == JArr([i \in 1..BigN |-> JInt(i - 1)])
dLong == JArr(<<JObj(<<nA40, nB40>>, <<JInt(1), JInt(2)>>), JObj(<<nB40>>, <<JNull>>), JObj(<<nC40>>, <<JBool(FALSE)>>),
               JObj(<<nA40, nC40>>, <<JInt(0), JStr(<<>>)>>)>>)
dStr == JArr(<<JStr(cA), JStr(<<120, 97, 98>>), JStr(cB), JStr(<<98, 97>>), JStr(<<97, 98>>)>>)
SDocs == <<dBig, dLong, dStr>>
Pat1 == <<97, 124, 98>>
Re(f, p) == Flt1(LTest(FALSE, EFn(f, <<ERel(<<>>), ELit(JStr(p))>>)))
\* 600 redundant pairs of parentheses around one comparison (evaluated by all threads at the same time)
RECURSIVE ParenN(_, _)
ParenN(n, x) == IF n = 0 THEN x ELSE LParen(FALSE, ParenN(n - 1, x))
SQs == << <<Child(<<SWild>>)>>,                                            \* 1  $[*]
          <<Child(<<SIndex(BigN - 1)>>)>>,                                 \* 2  $[N-1]
          <<Child(<<SSlice(300, 310, 1)>>)>>,                              \* 3  $[300:310]
          <<Desc(<<SWild>>)>>,                                             \* 4  $..*
          Flt1(LCmp(">", ERel(<<>>), ELit(JInt(BigN - 10)))),              \* 5  $[?@ > N-10]
          <<Child(<<SIndex(0 - 1), SIndex(256), SIndex(257)>>)>>,          \* 6  $[-1,256,257]
          Flt1(LTest(FALSE, RelN(nA40))),                                  \* 7  $[?@.aaaa...]
          Flt1(LTest(FALSE, RelN(nB40))),                                  \* 8
          Flt1(LTest(FALSE, RelN(nC40))),                                  \* 9
          <<Desc(<<SName(nA40)>>)>>,                                       \* 10 $..aaaa...
          <<Child(<<SWild>>), Child(<<SName(nC40)>>)>>,                    \* 11 $[*].cccc...   (one selector: multi-selector order is D1)
          Flt1(LCmp("==", RelN(nA40), ELit(JInt(0)))),                     \* 12 $[?@.aaaa... == 0]
          Re("match", Pat1), Re("search", Pat1),                           \* 13 14
          Flt1(ParenN(600, LCmp(">", ERel(<<>>), ELit(JInt(BigN - 5))))) >>  \* 15 $[?((((...(@ > N-5)...))))]
\* strings that are NOT queries: each is handed to the parser many hundred times before the rows are evaluated
Storm == << <<36, 91, 63, 99, 111, 117, 110, 116, 40, 49, 41, 32, 62, 32, 48, 93>>, <<36, 91, 57, 48, 48, 55, 49, 57, 57, 50, 53, 52, 55, 52, 48, 57, 57, 50, 93>>, <<36, 91, 63, 40, 64, 46, 97, 32, 61, 61, 32, 49, 32, 38, 38, 32, 108, 101, 110, 103, 116, 104, 40, 64, 46, 42, 41, 32, 62, 32, 48, 41, 93>>, <<36, 46, 97, 91>>, <<36, 91, 63, 108, 101, 110, 103, 116, 104, 40, 64, 46, 97, 41, 93>>, <<36, 91, 48, 58, 57, 48, 48, 55, 49, 57, 57, 50, 53, 52, 55, 52, 48, 57, 57, 51, 93>>, <<36, 91, 63, 109, 97, 116, 99, 104, 40, 64, 46, 97, 41, 93>> >>
ASSUME \A k \in 1..Len(Storm) : Verdict(Storm[k]) = "invalid"
Rows == << <<1, 1>>, <<7, 2>>, <<2, 1>>, <<8, 2>>, <<3, 1>>, <<9, 2>>, <<4, 1>>, <<10, 2>>, <<5, 1>>, <<11, 2>>, <<6, 1>>, <<12, 2>>,
           <<13, 3>>, <<14, 3>>, <<1, 2>>, <<4, 2>>, <<15, 1>> >>
Result(r) == LET ns == Denote(SQs[Rows[r][1]], SDocs[Rows[r][2]])
             IN [q |-> Rows[r][1], d |-> Rows[r][2], locs |-> ns, paths |-> [n \in 1..Len(ns) |-> NormalizedPath(ns[n])]]
Table == [r \in 1..Len(Rows) |-> Result(r)]

ASSUME PrintT(<<"REPLAY", ToJson([mode |-> "stress", id |-> <<Len(Rows)>>, docs |-> SDocs,
                                  queries |-> [n \in 1..Len(SQs) |-> RenderQuery(SQs[n])], table |-> Table, storm |-> Storm])>>)

(* the machine: thread t walks the rows cyclically from offset t; a step is one complete call *)
Threads == {1, 2}
MRows == 3
VARIABLES at, seen
Init == at = [t \in Threads |-> t] /\ seen = {}
Step(t) == /\ at[t] <= MRows + t
           /\ LET r == ((at[t] - 1) % MRows) + 1 IN seen' = seen \cup {<<r, Table[r].paths>>}
           /\ at' = [at EXCEPT ![t] = at[t] + 1]
Next == \E t \in Threads : Step(t)
\* whatever the interleaving, a row has one result
OneResultPerRow == \A a, b \in seen : a[1] = b[1] => a[2] = b[2]
=============================================================================
