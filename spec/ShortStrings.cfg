SPECIFICATION Spec
INVARIANTS Export Sanity
CHECK_DEADLOCK FALSE
