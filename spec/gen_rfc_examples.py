#!/usr/bin/env python3
"""Generates RFCExamples.tla: the example tables of RFC 9535 (reproduced from memory, DESIGN
Appendix B) as ASSUMEs over JPSemantics.  Run: python3 gen_rfc_examples.py > RFCExamples.tla"""
import json

def S(s):
    return "<<" + ",".join(str(ord(c)) for c in s) + ">>"

def val(j):
    if j is None: return "JNull"
    if j is True: return "JBool(TRUE)"
    if j is False: return "JBool(FALSE)"
    if isinstance(j, int): return f"JInt({j})"
    if isinstance(j, float):
        # decimal m*10^e from repr
        r = repr(j)
        if 'e' in r or 'E' in r: raise ValueError(r)
        ip, fp = r.split('.')
        m = int(ip + fp); e = -len(fp)
        return f"JNum({m},{e},TRUE)"
    if isinstance(j, str): return f"JStr({S(j)})"
    if isinstance(j, list): return "JArr(<<" + ",".join(val(x) for x in j) + ">>)"
    if isinstance(j, dict):
        return "JObj(<<" + ",".join(S(k) for k in j) + ">>,<<" + ",".join(val(x) for x in j.values()) + ">>)"
    raise ValueError(j)

def loc(l):
    return "<<" + ",".join(f"IdxStep({x})" if isinstance(x, int) else f"NameStep({S(x)})" for x in l) + ">>"
def locs(ls): return "<<" + ",".join(loc(l) for l in ls) + ">>"

# --- AST DSL ---
def name(n): return f"SName({S(n)})"
def idx(i): return f"SIndex({i})"
wild = "SWild"
A = "ABSENT"
def sl(a=A, b=A, c=A): return f"SSlice({a},{b},{c})"
def flt(lx): return f"SFilter({lx})"
def ch(*sels): return "Child(<<" + ",".join(sels) + ">>)"
def de(*sels): return "Desc(<<" + ",".join(sels) + ">>)"
def Q(*segs): return "<<" + ",".join(segs) + ">>"
def rel(*segs): return f"ERel({Q(*segs)})"
def ab(*segs): return f"EAbs({Q(*segs)})"
def lit(j): return f"ELit({val(j)})"
def fn(n, *args): return f'EFn("{n}",<<' + ",".join(args) + ">>)"
def cmp(op, l, r): return f'LCmp("{op}",{l},{r})'
def test(e, neg=False): return f"LTest({'TRUE' if neg else 'FALSE'},{e})"
def lor(*xs): return "LOr(<<" + ",".join(xs) + ">>)"
def land(*xs): return "LAnd(<<" + ",".join(xs) + ">>)"
def paren(x, neg=False): return f"LParen({'TRUE' if neg else 'FALSE'},{x})"

out = []
n = [0]
def doc(nm, j):
    out.append(f"{nm} == {val(j)}")
def ex(comment, q, d, expected):
    n[0] += 1
    out.append(f"\\* {comment}")
    out.append(f"ASSUME Ex{n[0]} == Denote({q}, {d}) = {locs(expected)}")
def truth(comment, lx, d, expected):
    n[0] += 1
    out.append(f"\\* {comment}")
    out.append(f"ASSUME Ex{n[0]} == EvalLx({lx}, {d}, Root) = {'TRUE' if expected else 'FALSE'}")
def np(comment, l, s):
    n[0] += 1
    out.append(f"\\* {comment}")
    out.append(f"ASSUME Ex{n[0]} == NormalizedPath({loc(l)}) = {S(s)}")

# 2.3.5.3 filter examples
doc("DocF", {"a": [3, 5, 1, 2, 4, 6, {"b": "j"}, {"b": "k"}, {"b": {}}, {"b": "kilo"}],
             "o": {"p": 1, "q": 2, "r": 3, "s": 5, "t": {"u": 6}}, "e": "f"})
a = lambda *rest: [["a", i] for i in rest]
ex("$.a[?@.b == 'kilo']", Q(ch(name("a")), ch(flt(cmp("==", rel(ch(name("b"))), lit("kilo"))))), "DocF", a(9))
ex("$.a[?(@.b == 'kilo')]", Q(ch(name("a")), ch(flt(paren(cmp("==", rel(ch(name("b"))), lit("kilo")))))), "DocF", a(9))
ex("$.a[?@>3.5]", Q(ch(name("a")), ch(flt(cmp(">", rel(), lit(3.5))))), "DocF", a(1, 4, 5))
ex("$.a[?@.b]", Q(ch(name("a")), ch(flt(test(rel(ch(name("b"))))))), "DocF", a(6, 7, 8, 9))
ex("$[?@.*]", Q(ch(flt(test(rel(ch(wild)))))), "DocF", [["a"], ["o"]])
ex("$[?@[?@.b]]", Q(ch(flt(test(rel(ch(flt(test(rel(ch(name("b"))))))))))), "DocF", [["a"]])
ex("$.o[?@<3, ?@<3]", Q(ch(name("o")), ch(flt(cmp("<", rel(), lit(3))), flt(cmp("<", rel(), lit(3))))), "DocF",
   [["o", "p"], ["o", "q"], ["o", "p"], ["o", "q"]])
ex('$.a[?@<2 || @.b == "k"]', Q(ch(name("a")), ch(flt(lor(cmp("<", rel(), lit(2)), cmp("==", rel(ch(name("b"))), lit("k")))))), "DocF", a(2, 7))
ex('$.a[?match(@.b, "[jk]")]', Q(ch(name("a")), ch(flt(test(fn("match", rel(ch(name("b"))), lit("[jk]")))))), "DocF", a(6, 7))
ex('$.a[?search(@.b, "[jk]")]', Q(ch(name("a")), ch(flt(test(fn("search", rel(ch(name("b"))), lit("[jk]")))))), "DocF", a(6, 7, 9))
ex("$.o[?@>1 && @<4]", Q(ch(name("o")), ch(flt(land(cmp(">", rel(), lit(1)), cmp("<", rel(), lit(4)))))), "DocF", [["o", "q"], ["o", "r"]])
ex("$.o[?@.u || @.x]", Q(ch(name("o")), ch(flt(lor(test(rel(ch(name("u")))), test(rel(ch(name("x")))))))), "DocF", [["o", "t"]])
ex("$.a[?@.b == $.x]", Q(ch(name("a")), ch(flt(cmp("==", rel(ch(name("b"))), ab(ch(name("x"))))))), "DocF", a(0, 1, 2, 3, 4, 5))
ex("$.a[?@ == @]", Q(ch(name("a")), ch(flt(cmp("==", rel(), rel())))), "DocF", a(*range(10)))

# comparison table
doc("DocC", {"obj": {"x": "y"}, "arr": [2, 3]})
ab1 = lambda nm: ab(ch(name(nm)))
tbl = [("$.absent1 == $.absent2", "==", ab1("absent1"), ab1("absent2"), True),
       ("$.absent1 <= $.absent2", "<=", ab1("absent1"), ab1("absent2"), True),
       ("$.absent == 'g'", "==", ab1("absent"), lit("g"), False),
       ("$.absent1 != $.absent2", "!=", ab1("absent1"), ab1("absent2"), False),
       ("$.absent != 'g'", "!=", ab1("absent"), lit("g"), True),
       ("1 <= 2", "<=", lit(1), lit(2), True), ("1 > 2", ">", lit(1), lit(2), False),
       ("13 == '13'", "==", lit(13), lit("13"), False),
       ("'a' <= 'b'", "<=", lit("a"), lit("b"), True), ("'a' > 'b'", ">", lit("a"), lit("b"), False),
       ("$.obj == $.arr", "==", ab1("obj"), ab1("arr"), False), ("$.obj != $.arr", "!=", ab1("obj"), ab1("arr"), True),
       ("$.obj == $.obj", "==", ab1("obj"), ab1("obj"), True), ("$.obj != $.obj", "!=", ab1("obj"), ab1("obj"), False),
       ("$.arr == $.arr", "==", ab1("arr"), ab1("arr"), True), ("$.arr != $.arr", "!=", ab1("arr"), ab1("arr"), False),
       ("$.obj == 17", "==", ab1("obj"), lit(17), False), ("$.obj != 17", "!=", ab1("obj"), lit(17), True),
       ("$.obj <= $.arr", "<=", ab1("obj"), ab1("arr"), False), ("$.obj < $.arr", "<", ab1("obj"), ab1("arr"), False),
       ("$.obj <= $.obj", "<=", ab1("obj"), ab1("obj"), True), ("$.arr <= $.arr", "<=", ab1("arr"), ab1("arr"), True),
       ("1 <= $.arr", "<=", lit(1), ab1("arr"), False), ("1 >= $.arr", ">=", lit(1), ab1("arr"), False),
       ("1 > $.arr", ">", lit(1), ab1("arr"), False), ("1 < $.arr", "<", lit(1), ab1("arr"), False),
       ("true <= true", "<=", lit(True), lit(True), True), ("true > true", ">", lit(True), lit(True), False)]
for c, op, l, r, e in tbl:
    truth(c, cmp(op, l, r), "DocC", e)

# slices, index
doc("DocS", ["a", "b", "c", "d", "e", "f", "g"])
ex("$[1:3]", Q(ch(sl(1, 3))), "DocS", [[1], [2]])
ex("$[5:]", Q(ch(sl(5))), "DocS", [[5], [6]])
ex("$[1:5:2]", Q(ch(sl(1, 5, 2))), "DocS", [[1], [3]])
ex("$[5:1:-2]", Q(ch(sl(5, 1, -2))), "DocS", [[5], [3]])
ex("$[::-1]", Q(ch(sl(A, A, -1))), "DocS", [[6], [5], [4], [3], [2], [1], [0]])
doc("DocI", ["a", "b"])
ex("$[1]", Q(ch(idx(1))), "DocI", [[1]])
ex("$[-2]", Q(ch(idx(-2))), "DocI", [[0]])
ex("$[2]", Q(ch(idx(2))), "DocI", [])

# name selector 2.3.1.3
doc("DocN", {"o": {"j j": {"k.k": 3}}, "'": {"@": 2}})
ex("$.o['j j']", Q(ch(name("o")), ch(name("j j"))), "DocN", [["o", "j j"]])
ex("$.o['j j']['k.k']", Q(ch(name("o")), ch(name("j j")), ch(name("k.k"))), "DocN", [["o", "j j", "k.k"]])
ex("$[\"'\"][\"@\"]", Q(ch(name("'")), ch(name("@"))), "DocN", [["'", "@"]])

# wildcard 2.3.2.3
doc("DocW", {"o": {"j": 1, "k": 2}, "a": [5, 3]})
ex("$[*]", Q(ch(wild)), "DocW", [["o"], ["a"]])
ex("$.o[*]", Q(ch(name("o")), ch(wild)), "DocW", [["o", "j"], ["o", "k"]])
ex("$.o[*, *]", Q(ch(name("o")), ch(wild, wild)), "DocW", [["o", "j"], ["o", "k"], ["o", "j"], ["o", "k"]])
ex("$.a[*]", Q(ch(name("a")), ch(wild)), "DocW", [["a", 0], ["a", 1]])

# child / descendant 2.5
doc("DocD", {"o": {"j": 1, "k": 2}, "a": [5, 3, [{"j": 4}, {"k": 6}]]})
ex("$..j", Q(de(name("j"))), "DocD", [["o", "j"], ["a", 2, 0, "j"]])
ex("$..[0]", Q(de(idx(0))), "DocD", [["a", 0], ["a", 2, 0]])
ex("$..*", Q(de(wild)), "DocD", [["o"], ["a"], ["o", "j"], ["o", "k"], ["a", 0], ["a", 1], ["a", 2], ["a", 2, 0], ["a", 2, 1], ["a", 2, 0, "j"], ["a", 2, 1, "k"]])
ex("$..o", Q(de(name("o"))), "DocD", [["o"]])
ex("$.o..[*, *]", Q(ch(name("o")), de(wild, wild)), "DocD", [["o", "j"], ["o", "k"], ["o", "j"], ["o", "k"]])
ex("$.a..[0, 1]", Q(ch(name("a")), de(idx(0), idx(1))), "DocD", [["a", 0], ["a", 1], ["a", 2, 0], ["a", 2, 1]])
doc("DocCh", ["a", "b", "c", "d", "e", "f", "g"])
ex("$[0, 3]", Q(ch(idx(0), idx(3))), "DocCh", [[0], [3]])
ex("$[0:2, 5]", Q(ch(sl(0, 2), idx(5))), "DocCh", [[0], [1], [5]])
ex("$[0, 0]", Q(ch(idx(0), idx(0))), "DocCh", [[0], [0]])

# null 2.6.1
doc("DocNull", {"a": None, "b": [None], "c": [{}], "null": 1})
ex("$.a", Q(ch(name("a"))), "DocNull", [["a"]])
ex("$.a[0]", Q(ch(name("a")), ch(idx(0))), "DocNull", [])
ex("$.a.d", Q(ch(name("a")), ch(name("d"))), "DocNull", [])
ex("$.b[0]", Q(ch(name("b")), ch(idx(0))), "DocNull", [["b", 0]])
ex("$.b[*]", Q(ch(name("b")), ch(wild)), "DocNull", [["b", 0]])
ex("$.b[?@]", Q(ch(name("b")), ch(flt(test(rel())))), "DocNull", [["b", 0]])
ex("$.b[?@==null]", Q(ch(name("b")), ch(flt(cmp("==", rel(), lit(None))))), "DocNull", [["b", 0]])
ex("$.c[?@.d==null]", Q(ch(name("c")), ch(flt(cmp("==", rel(ch(name("d"))), lit(None))))), "DocNull", [])
ex("$.null", Q(ch(name("null"))), "DocNull", [["null"]])

# functions 2.4
doc("DocFn", [{"timezone": "Europe/Berlin", "color": "red", "xs": [1, 2]}, {"timezone": "Asia/Tokyo", "n": {"color": "red"}, "xs": [1]}, "ab", 7])
ex("$[?length(@) < 3]", Q(ch(flt(cmp("<", fn("length", rel()), lit(3))))), "DocFn", [[2]])
ex("$[?count(@.*) == 3]", Q(ch(flt(cmp("==", fn("count", rel(ch(wild))), lit(3))))), "DocFn", [[0], [1]])
ex("$[?match(@.timezone, 'Europe/.*')]", Q(ch(flt(test(fn("match", rel(ch(name("timezone"))), lit("Europe/.*")))))), "DocFn", [[0]])
ex("$[?value(@..color) == 'red']", Q(ch(flt(cmp("==", fn("value", rel(de(name("color")))), lit("red"))))), "DocFn", [[0], [1]])
ex("$[?count(@.xs[*]) == 1]", Q(ch(flt(cmp("==", fn("count", rel(ch(name("xs")), ch(wild))), lit(1))))), "DocFn", [[1]])
ex("$[?count(@.zz[*]) == 0]", Q(ch(flt(cmp("==", fn("count", rel(ch(name("zz")), ch(wild))), lit(0))))), "DocFn", [[0], [1], [2], [3]])

# normalized paths 2.7.1
np("$.a", ["a"], "$['a']")
np("$[1]", [1], "$[1]")
np("$.a.b[1:2]", ["a", "b", 1], "$['a']['b'][1]")
np('$["\\u000B"]', ["\u000b"], "$['\\u000b']")
np("quote and backslash", ["'\\"], "$['\\'\\\\']")
np("newline", ["\n"], "$['\\n']")

print("---------------------------- MODULE RFCExamples ----------------------------")
print("(* GENERATED by gen_rfc_examples.py - the example tables of RFC 9535 as ASSUMEs. *)")
print("EXTENDS JPSemantics")
for l in out:
    print(l)
print("RFCExampleCount == %d" % n[0])
print("=============================================================================")
