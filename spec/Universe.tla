------------------------------ MODULE Universe ------------------------------
(***************************************************************************)
(* Finite universes of documents and queries, built as TUPLES (never as    *)
(* sets of heterogeneous records) so that TLC enumerates them by index.    *)
(***************************************************************************)
EXTENDS JPSemantics, IOUtils

Tier == IF "VERIF_TIER" \in DOMAIN IOEnv THEN IOEnv.VERIF_TIER ELSE "quick"
Seed == IF "VERIF_SEED" \in DOMAIN IOEnv THEN atoi(IOEnv.VERIF_SEED) ELSE 0
Thorough == Tier = "thorough"

cA == <<97>>  cB == <<98>>  cC == <<99>>  cK == <<107>>  cX == <<120>>

(* ---------- combinators --------------------------------------------------- *)
\* all tuples of length exactly n over the tuple `vals`
RECURSIVE TuplesOf(_, _)
TuplesOf(vals, n) ==
  IF n = 0 THEN << <<>> >>
  ELSE LET prev == TuplesOf(vals, n - 1)
       IN FlattenSeq([i \in 1..Len(prev) |-> [k \in 1..Len(vals) |-> Append(prev[i], vals[k])]])
RECURSIVE TuplesUpTo(_, _)
TuplesUpTo(vals, n) == IF n = 0 THEN TuplesOf(vals, 0) ELSE TuplesUpTo(vals, n - 1) \o TuplesOf(vals, n)

\* all sub-sequences (order kept) of the tuple `names`, as tuples
RECURSIVE SubTuples(_)
SubTuples(names) ==
  IF names = <<>> THEN << <<>> >>
  ELSE LET rest == SubTuples(Tail(names))
       IN rest \o [i \in 1..Len(rest) |-> <<Head(names)>> \o rest[i]]

ArraysOver(vals, maxlen) == LET ts == TuplesUpTo(vals, maxlen) IN [i \in 1..Len(ts) |-> JArr(ts[i])]
\* objects whose member names are a sub-sequence of `names` (in that order) and values from vals
ObjectsOver(names, vals) ==
  LET subs == SubTuples(names)
  IN FlattenSeq([i \in 1..Len(subs) |->
        LET ts == TuplesOf(vals, Len(subs[i])) IN [k \in 1..Len(ts) |-> JObj(subs[i], ts[k])]])

\* pairs
Cross2(as, bs, Op(_, _)) == FlattenSeq([i \in 1..Len(as) |-> [k \in 1..Len(bs) |-> Op(as[i], bs[k])]])

\* remove duplicates, keep first occurrence (uses = on homogeneous records only)
RECURSIVE DedupSeq(_)
DedupSeq(s) == IF s = <<>> THEN <<>>
               ELSE LET r == DedupSeq(SubSeq(s, 1, Len(s) - 1)) x == s[Len(s)]
                    IN IF \E i \in 1..Len(r) : r[i] = x THEN r ELSE Append(r, x)

\* deterministic stride sampling: keeps about 1/stride of the (di, qi) pairs, shifted by the seed
Stride(n, di, qi) == n <= 1 \/ ((((di % n) * (7919 % n)) + ((qi % n) * (104729 % n)) + (Seed % n)) % n) = 0      \* modular: no 32-bit overflow
=============================================================================
