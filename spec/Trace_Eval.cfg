SPECIFICATION Spec
POSTCONDITION Post
CHECK_DEADLOCK FALSE
