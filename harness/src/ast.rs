//! The specification's abstract syntax (JPSyntax.tla) and its conversion to a PROGRAMMATICALLY BUILT `JpQuery`
//! (no parser involved): `js_path_process` on such a query must give the specification's nodelist as well
//! (C08 "all programmatically built queries", C12 "a query that was parsed once").
use crate::model::*;
use jsonpath_rust::parser::model::*;
use serde::Deserialize;

const ABSENT: i64 = 2_000_000_000;
const BIG: i64 = 1_073_741_824;
const MAXI: i64 = 9_007_199_254_740_991;

#[derive(Deserialize, Clone)]
pub struct ASel {
    pub k: String,
    pub n: Cps,
    pub i: i64,
    pub st: i64,
    pub en: i64,
    pub sp: i64,
    pub f: Vec<ALx>,
}
#[derive(Deserialize, Clone)]
pub struct ASeg {
    pub desc: bool,
    pub sels: Vec<ASel>,
}
#[derive(Deserialize, Clone)]
pub struct AExpr {
    pub k: String,
    pub v: SVal,
    pub abs: bool,
    pub segs: Vec<ASeg>,
    pub fname: String,
    pub args: Vec<AExpr>,
    pub lx: Vec<ALx>,
}
#[derive(Deserialize, Clone)]
pub struct ALx {
    pub k: String,
    pub xs: Vec<ALx>,
    pub neg: bool,
    pub op: String,
    pub es: Vec<AExpr>,
}

fn dec(i: i64) -> Option<i64> {
    if i == ABSENT {
        None
    } else if i.abs() > 500_000_000 {
        let d = i.abs() - BIG;
        Some(if i < 0 { -(MAXI + d) } else { MAXI + d })
    } else {
        Some(i)
    }
}

/// Names are handed over the way a programmer writes them: the bare member name. Names that contain a quote or a
/// backslash have no unambiguous bare form in this API (the engine strips quotes and rewrites backslashes) - None.
fn name(n: &Cps) -> Option<String> {
    let s = cps_to_string(n);
    if s.contains('\'') || s.contains('"') || s.contains('\\') {
        None
    } else {
        Some(s)
    }
}

fn selector(s: &ASel) -> Option<Selector> {
    Some(match s.k.as_str() {
        "name" => Selector::Name(name(&s.n)?),
        "wild" => Selector::Wildcard,
        "index" => Selector::Index(dec(s.i)?),
        "slice" => Selector::Slice(dec(s.st), dec(s.en), dec(s.sp)),
        "filter" => Selector::Filter(filter(&s.f[0])?),
        _ => return None,
    })
}
pub fn segments(segs: &[ASeg]) -> Option<Vec<Segment>> {
    segs.iter()
        .map(|sg| {
            let sels: Vec<Selector> = sg.sels.iter().map(selector).collect::<Option<_>>()?;
            let inner = if sels.len() == 1 { Segment::Selector(sels.into_iter().next()?) } else { Segment::Selectors(sels) };
            Some(if sg.desc { Segment::Descendant(Box::new(inner)) } else { inner })
        })
        .collect()
}
fn literal(v: &SVal) -> Option<Literal> {
    Some(match v.t.as_str() {
        "null" => Literal::Null,
        "bool" => Literal::Bool(v.b),
        "num" => match v.to_value() {
            serde_json::Value::Number(n) if !v.f => Literal::Int(n.as_i64()?),
            serde_json::Value::Number(n) => Literal::Float(n.as_f64()?),
            _ => return None,
        },
        "str" => {
            let s = cps_to_string(&v.s);
            if s.contains('\\') { return None; }
            Literal::String(s)
        }
        _ => return None,
    })
}
fn singular(e: &AExpr) -> Option<SingularQuery> {
    let segs: Vec<SingularQuerySegment> = e
        .segs
        .iter()
        .map(|sg| {
            if sg.desc || sg.sels.len() != 1 { return None; }
            match sg.sels[0].k.as_str() {
                "name" => Some(SingularQuerySegment::Name(name(&sg.sels[0].n)?)),
                "index" => Some(SingularQuerySegment::Index(dec(sg.sels[0].i)?)),
                _ => None,
            }
        })
        .collect::<Option<_>>()?;
    Some(if e.abs { SingularQuery::Root(segs) } else { SingularQuery::Current(segs) })
}
fn test(e: &AExpr) -> Option<Test> {
    Some(match e.k.as_str() {
        "q" if e.abs => Test::AbsQuery(JpQuery::new(segments(&e.segs)?)),
        "q" => Test::RelQuery(segments(&e.segs)?),
        "fn" => Test::Function(Box::new(function(e)?)),
        _ => return None,
    })
}
fn fnarg(e: &AExpr) -> Option<FnArg> {
    Some(match e.k.as_str() {
        "lit" => FnArg::Literal(literal(&e.v)?),
        "q" | "fn" => FnArg::Test(Box::new(test(e)?)),
        "lx" => FnArg::Filter(filter(&e.lx[0])?),
        _ => return None,
    })
}
fn function(e: &AExpr) -> Option<TestFunction> {
    let args: Vec<FnArg> = e.args.iter().map(fnarg).collect::<Option<_>>()?;
    TestFunction::try_new(&e.fname, args).ok()
}
fn comparable(e: &AExpr) -> Option<Comparable> {
    Some(match e.k.as_str() {
        "lit" => Comparable::Literal(literal(&e.v)?),
        "q" => Comparable::SingularQuery(singular(e)?),
        "fn" => Comparable::Function(function(e)?),
        _ => return None,
    })
}
pub fn filter(x: &ALx) -> Option<Filter> {
    Some(match x.k.as_str() {
        "or" => Filter::Or(x.xs.iter().map(filter).collect::<Option<_>>()?),
        "and" => Filter::And(x.xs.iter().map(filter).collect::<Option<_>>()?),
        "paren" => Filter::Atom(FilterAtom::filter(filter(&x.xs[0])?, x.neg)),
        "cmp" => Filter::Atom(FilterAtom::cmp(Box::new(Comparison::try_new(&x.op, comparable(&x.es[0])?, comparable(&x.es[1])?).ok()?))),
        "test" => Filter::Atom(FilterAtom::test(test(&x.es[0])?, x.neg)),
        _ => return None,
    })
}
pub fn jpquery(segs: &[ASeg]) -> Option<JpQuery> {
    Some(JpQuery::new(segments(segs)?))
}
