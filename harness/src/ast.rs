//! The specification's abstract syntax (JPSyntax.tla) and its conversion to a PROGRAMMATICALLY BUILT `JpQuery`
//! (no parser involved): `js_path_process` on such a query must give the specification's nodelist as well
//! (C08 "all programmatically built queries", C12 "a query that was parsed once").
use crate::model::*;
use jsonpath_rust::parser::model::*;
use serde::Deserialize;

const ABSENT: i64 = 2_000_000_000;
const BIG: i64 = 1_073_741_824;
const MAXI: i64 = 9_007_199_254_740_991;

#[derive(Deserialize, Clone)]
pub struct ASel {
    pub k: String,
    pub n: Cps,
    pub i: i64,
    pub st: i64,
    pub en: i64,
    pub sp: i64,
    pub f: Vec<ALx>,
}
#[derive(Deserialize, Clone)]
pub struct ASeg {
    pub desc: bool,
    pub sels: Vec<ASel>,
}
#[derive(Deserialize, Clone)]
pub struct AExpr {
    pub k: String,
    pub v: SVal,
    pub abs: bool,
    pub segs: Vec<ASeg>,
    pub fname: String,
    pub args: Vec<AExpr>,
    pub lx: Vec<ALx>,
}
#[derive(Deserialize, Clone)]
pub struct ALx {
    pub k: String,
    pub xs: Vec<ALx>,
    pub neg: bool,
    pub op: String,
    pub es: Vec<AExpr>,
}

fn dec(i: i64) -> Option<i64> {
    if i == ABSENT {
        None
    } else if i.abs() > 500_000_000 {
        let d = i.abs() - BIG;
        Some(if i < 0 { -(MAXI + d) } else { MAXI + d })
    } else {
        Some(i)
    }
}

/// Names are handed over the way a programmer writes them: the bare member name. Names that contain a quote or a
/// backslash have no unambiguous bare form in this API (the engine strips quotes and rewrites backslashes) - None.
thread_local! { static LENIENT: std::cell::Cell<bool> = const { std::cell::Cell::new(false) }; }
fn name(n: &Cps) -> Option<String> {
    let s = cps_to_string(n);
    if !LENIENT.with(|l| l.get()) && (s.contains('\'') || s.contains('"') || s.contains('\\')) {
        None
    } else {
        Some(s)
    }
}
/// Like `jpquery`, but names are passed through raw whatever they contain.
pub fn jpquery_lenient(segs: &[ASeg]) -> Option<JpQuery> {
    LENIENT.with(|l| l.set(true));
    let r = jpquery(segs);
    LENIENT.with(|l| l.set(false));
    r
}

fn selector(s: &ASel) -> Option<Selector> {
    Some(match s.k.as_str() {
        "name" => Selector::Name(name(&s.n)?),
        "wild" => Selector::Wildcard,
        "index" => Selector::Index(dec(s.i)?),
        "slice" => Selector::Slice(dec(s.st), dec(s.en), dec(s.sp)),
        "filter" => Selector::Filter(filter(&s.f[0])?),
        _ => return None,
    })
}
pub fn segments(segs: &[ASeg]) -> Option<Vec<Segment>> {
    segs.iter()
        .map(|sg| {
            let sels: Vec<Selector> = sg.sels.iter().map(selector).collect::<Option<_>>()?;
            let inner = if sels.len() == 1 { Segment::Selector(sels.into_iter().next()?) } else { Segment::Selectors(sels) };
            Some(if sg.desc { Segment::Descendant(Box::new(inner)) } else { inner })
        })
        .collect()
}
fn literal(v: &SVal) -> Option<Literal> {
    Some(match v.t.as_str() {
        "null" => Literal::Null,
        "bool" => Literal::Bool(v.b),
        "num" => match v.to_value() {
            serde_json::Value::Number(n) if !v.f => Literal::Int(n.as_i64()?),
            serde_json::Value::Number(n) => Literal::Float(n.as_f64()?),
            _ => return None,
        },
        "str" => {
            let s = cps_to_string(&v.s);
            if s.contains('\\') { return None; }
            Literal::String(s)
        }
        _ => return None,
    })
}
fn singular(e: &AExpr) -> Option<SingularQuery> {
    let segs: Vec<SingularQuerySegment> = e
        .segs
        .iter()
        .map(|sg| {
            if sg.desc || sg.sels.len() != 1 { return None; }
            match sg.sels[0].k.as_str() {
                "name" => Some(SingularQuerySegment::Name(name(&sg.sels[0].n)?)),
                "index" => Some(SingularQuerySegment::Index(dec(sg.sels[0].i)?)),
                _ => None,
            }
        })
        .collect::<Option<_>>()?;
    Some(if e.abs { SingularQuery::Root(segs) } else { SingularQuery::Current(segs) })
}
fn test(e: &AExpr) -> Option<Test> {
    Some(match e.k.as_str() {
        "q" if e.abs => Test::AbsQuery(JpQuery::new(segments(&e.segs)?)),
        "q" => Test::RelQuery(segments(&e.segs)?),
        "fn" => Test::Function(Box::new(function(e)?)),
        _ => return None,
    })
}
fn fnarg(e: &AExpr) -> Option<FnArg> {
    Some(match e.k.as_str() {
        "lit" => FnArg::Literal(literal(&e.v)?),
        "q" | "fn" => FnArg::Test(Box::new(test(e)?)),
        "lx" => FnArg::Filter(filter(&e.lx[0])?),
        _ => return None,
    })
}
fn function(e: &AExpr) -> Option<TestFunction> {
    let args: Vec<FnArg> = e.args.iter().map(fnarg).collect::<Option<_>>()?;
    TestFunction::try_new(&e.fname, args).ok()
}
fn comparable(e: &AExpr) -> Option<Comparable> {
    Some(match e.k.as_str() {
        "lit" => Comparable::Literal(literal(&e.v)?),
        "q" => Comparable::SingularQuery(singular(e)?),
        "fn" => Comparable::Function(function(e)?),
        _ => return None,
    })
}
pub fn filter(x: &ALx) -> Option<Filter> {
    Some(match x.k.as_str() {
        "or" => Filter::Or(x.xs.iter().map(filter).collect::<Option<_>>()?),
        "and" => Filter::And(x.xs.iter().map(filter).collect::<Option<_>>()?),
        "paren" => Filter::Atom(FilterAtom::filter(filter(&x.xs[0])?, x.neg)),
        "cmp" => Filter::Atom(FilterAtom::cmp(Box::new(Comparison::try_new(&x.op, comparable(&x.es[0])?, comparable(&x.es[1])?).ok()?))),
        "test" => Filter::Atom(FilterAtom::test(test(&x.es[0])?, x.neg)),
        _ => return None,
    })
}
pub fn jpquery(segs: &[ASeg]) -> Option<JpQuery> {
    Some(JpQuery::new(segments(segs)?))
}

// ------------------------------------------------------------------------------------------------------------
// the other direction: the AST the implementation's PARSER produced, in the specification's encoding, so that TLC
// can compare it with its own parse of the same string (Trace_Eval.tla, aspect "ast")
use serde_json::{json, Value};

fn enc_int(i: i64) -> i64 {
    // JPParse.MagOfDigits: up to 9 digits the exact value, beyond that the BIG abstraction
    if i.abs() <= 999_999_999 {
        i
    } else {
        let d = i.abs() - MAXI;
        let m = if (-2..=2).contains(&d) { BIG + d } else if d > 2 { BIG + 2 } else { BIG - 3 };
        if i < 0 { -m } else { m }
    }
}
fn enc_opt(i: &Option<i64>) -> i64 {
    i.map(enc_int).unwrap_or(ABSENT)
}
/// raw name text of the parser -> member name; None if it contains an escape (D10 territory: not compared)
fn raw_name(raw: &str) -> Option<Cps> {
    let inner = if raw.len() >= 2 && ((raw.starts_with('\'') && raw.ends_with('\'')) || (raw.starts_with('"') && raw.ends_with('"'))) {
        &raw[1..raw.len() - 1]
    } else {
        raw
    };
    if inner.contains('\\') { None } else { Some(string_to_cps(inner)) }
}
fn sel_blank() -> Value {
    json!({"k": "wild", "n": [], "i": 0, "st": ABSENT, "en": ABSENT, "sp": ABSENT, "f": []})
}
fn expr_blank() -> Value {
    json!({"k": "lit", "v": SVal::blank("null"), "abs": false, "segs": [], "fname": "", "args": [], "lx": []})
}
fn lx_blank() -> Value {
    json!({"k": "test", "xs": [], "neg": false, "op": "", "es": []})
}
fn sel_json(s: &Selector) -> Option<Value> {
    let mut v = sel_blank();
    match s {
        Selector::Name(raw) => { v["k"] = json!("name"); v["n"] = json!(raw_name(raw)?); }
        Selector::Wildcard => {}
        Selector::Index(i) => { v["k"] = json!("index"); v["i"] = json!(enc_int(*i)); }
        Selector::Slice(a, b, c) => { v["k"] = json!("slice"); v["st"] = json!(enc_opt(a)); v["en"] = json!(enc_opt(b)); v["sp"] = json!(enc_opt(c)); }
        Selector::Filter(f) => { v["k"] = json!("filter"); v["f"] = json!([filter_json(f)?]); }
    }
    Some(v)
}
fn seg_json(s: &Segment) -> Option<Value> {
    Some(match s {
        Segment::Selector(x) => json!({"desc": false, "sels": [sel_json(x)?]}),
        Segment::Selectors(xs) => json!({"desc": false, "sels": xs.iter().map(sel_json).collect::<Option<Vec<_>>>()?}),
        Segment::Descendant(inner) => { let mut v = seg_json(inner)?; v["desc"] = json!(true); v }
    })
}
pub fn segs_json(segs: &[Segment]) -> Option<Value> {
    Some(Value::Array(segs.iter().map(seg_json).collect::<Option<Vec<_>>>()?))
}
fn lit_json(l: &Literal) -> Option<Value> {
    let v = match l {
        Literal::Null => SVal::blank("null"),
        Literal::Bool(b) => SVal { b: *b, ..SVal::blank("bool") },
        Literal::Int(i) if i.abs() < 100_000_000 => SVal { m: *i, ..SVal::blank("num") },
        Literal::Int(_) => return None,
        Literal::Float(f) => { let (m, e) = decimal_of(*f)?; if e.abs() > 400 { return None; } SVal { m, e, f: true, ..SVal::blank("num") } }
        Literal::String(s) => { if s.contains('\\') { return None; } SVal { s: string_to_cps(s), ..SVal::blank("str") } }
    };
    let mut e = expr_blank();
    e["v"] = json!(v);
    Some(e)
}
fn query_json(abs: bool, segs: &[Segment]) -> Option<Value> {
    let mut e = expr_blank();
    e["k"] = json!("q");
    e["abs"] = json!(abs);
    e["segs"] = segs_json(segs)?;
    Some(e)
}
fn test_json(t: &Test) -> Option<Value> {
    match t {
        Test::RelQuery(segs) => query_json(false, segs),
        Test::AbsQuery(q) => query_json(true, &q.segments),
        Test::Function(f) => fn_json(f),
    }
}
fn fnarg_json(a: &FnArg) -> Option<Value> {
    match a {
        FnArg::Literal(l) => lit_json(l),
        FnArg::Test(t) => test_json(t),
        FnArg::Filter(f) => { let mut e = expr_blank(); e["k"] = json!("lx"); e["lx"] = json!([filter_json(f)?]); Some(e) }
    }
}
fn fn_json(f: &TestFunction) -> Option<Value> {
    let (name, args): (String, Vec<&FnArg>) = match f {
        TestFunction::Custom(n, a) => (n.clone(), a.iter().collect()),
        TestFunction::Length(a) => ("length".into(), vec![a.as_ref()]),
        TestFunction::Value(a) => ("value".into(), vec![a]),
        TestFunction::Count(a) => ("count".into(), vec![a]),
        TestFunction::Search(a, b) => ("search".into(), vec![a, b]),
        TestFunction::Match(a, b) => ("match".into(), vec![a, b]),
    };
    let mut e = expr_blank();
    e["k"] = json!("fn");
    e["fname"] = json!(name);
    e["args"] = Value::Array(args.into_iter().map(fnarg_json).collect::<Option<Vec<_>>>()?);
    Some(e)
}
fn comparable_json(c: &Comparable) -> Option<Value> {
    match c {
        Comparable::Literal(l) => lit_json(l),
        Comparable::Function(f) => fn_json(f),
        Comparable::SingularQuery(q) => {
            let (abs, segs) = match q { SingularQuery::Current(s) => (false, s), SingularQuery::Root(s) => (true, s) };
            let segs: Vec<Segment> = segs.iter().map(|s| match s {
                SingularQuerySegment::Index(i) => Segment::Selector(Selector::Index(*i)),
                SingularQuerySegment::Name(n) => Segment::Selector(Selector::Name(n.clone())),
            }).collect();
            query_json(abs, &segs)
        }
    }
}
pub fn filter_json(f: &Filter) -> Option<Value> {
    let mut v = lx_blank();
    match f {
        Filter::Or(xs) => { v["k"] = json!("or"); v["xs"] = Value::Array(xs.iter().map(filter_json).collect::<Option<Vec<_>>>()?); }
        Filter::And(xs) => { v["k"] = json!("and"); v["xs"] = Value::Array(xs.iter().map(filter_json).collect::<Option<Vec<_>>>()?); }
        Filter::Atom(FilterAtom::Filter { expr, not }) => { v["k"] = json!("paren"); v["neg"] = json!(not); v["xs"] = json!([filter_json(expr)?]); }
        Filter::Atom(FilterAtom::Test { expr, not }) => { v["neg"] = json!(not); v["es"] = json!([test_json(expr)?]); }
        Filter::Atom(FilterAtom::Comparison(c)) => {
            let (op, l, r) = match c.as_ref() {
                Comparison::Eq(l, r) => ("==", l, r), Comparison::Ne(l, r) => ("!=", l, r), Comparison::Gt(l, r) => (">", l, r),
                Comparison::Gte(l, r) => (">=", l, r), Comparison::Lt(l, r) => ("<", l, r), Comparison::Lte(l, r) => ("<=", l, r),
            };
            v["k"] = json!("cmp"); v["op"] = json!(op); v["es"] = json!([comparable_json(l)?, comparable_json(r)?]);
        }
    }
    Some(v)
}
