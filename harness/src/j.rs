//! `J`: a second, differently represented, faithful implementation of `Queryable` (property C15).
//!
//! Differences from `serde_json::Value` that a correct generic engine must not notice:
//! objects are vectors of (name, value) in INSERTION order; integers and floats are separate
//! variants and `as_f64` answers only for floats, `as_i64` only for integers; equality is JSON
//! value equality (objects irrespective of member order).
use jsonpath_rust::query::queryable::Queryable;

#[derive(Clone, Debug)]
pub enum J {
    Null,
    Bool(bool),
    Int(i64),
    Float(f64),
    Str(String),
    Arr(Vec<J>),
    Obj(Vec<(String, J)>),
}

/// `Default` is deliberately NOT the null value: the trait asks for `Default` and for `null()` separately,
/// and an engine that confuses the two must be noticed.
impl Default for J {
    fn default() -> Self {
        J::Obj(vec![])
    }
}

impl PartialEq for J {
    fn eq(&self, other: &J) -> bool {
        match (self, other) {
            (J::Null, J::Null) => true,
            (J::Bool(a), J::Bool(b)) => a == b,
            (J::Int(a), J::Int(b)) => a == b,
            (J::Float(a), J::Float(b)) => a == b,
            // like serde_json, an integer and a float are different values for `==` of the data type itself:
            // numeric interoperability is the engine's job (eq_json), not something it may delegate to PartialEq
            (J::Str(a), J::Str(b)) => a == b,
            (J::Arr(a), J::Arr(b)) => a == b,
            // deliberately ORDER-SENSITIVE (a derived PartialEq on the member vector would be, too): whether two objects
            // are the same JSON value is decided by the engine through the trait's accessors, not by this operator
            (J::Obj(a), J::Obj(b)) => a == b,
            _ => false,
        }
    }
}

impl From<&str> for J {
    fn from(s: &str) -> Self {
        J::Str(s.to_string())
    }
}
impl From<String> for J {
    fn from(s: String) -> Self {
        J::Str(s)
    }
}
impl From<bool> for J {
    fn from(b: bool) -> Self {
        J::Bool(b)
    }
}
impl From<i64> for J {
    fn from(i: i64) -> Self {
        J::Int(i)
    }
}
impl From<f64> for J {
    fn from(f: f64) -> Self {
        J::Float(f)
    }
}
impl From<Vec<J>> for J {
    fn from(v: Vec<J>) -> Self {
        J::Arr(v)
    }
}

impl Queryable for J {
    fn get(&self, key: &str) -> Option<&Self> {
        // the trait documentation makes the implementation responsible for enclosing quotes
        let key = if key.len() >= 2 && key.starts_with('\'') && key.ends_with('\'') {
            &key[1..key.len() - 1]
        } else if key.len() >= 2 && key.starts_with('"') && key.ends_with('"') {
            &key[1..key.len() - 1]
        } else {
            key
        };
        // fault injection (C08/C12 recovery check): a caller's Queryable may panic; the caller may catch it and go on
        if key == "__panic__" {
            panic!("verif: injected panic in Queryable::get");
        }
        match self {
            J::Obj(m) => m.iter().find(|(k, _)| k == key).map(|(_, v)| v),
            _ => None,
        }
    }
    fn as_array(&self) -> Option<&Vec<Self>> {
        match self {
            J::Arr(a) => Some(a),
            _ => None,
        }
    }
    fn as_object(&self) -> Option<Vec<(&String, &Self)>> {
        match self {
            J::Obj(m) => Some(m.iter().map(|(k, v)| (k, v)).collect()),
            _ => None,
        }
    }
    fn as_str(&self) -> Option<&str> {
        match self {
            J::Str(s) => Some(s),
            _ => None,
        }
    }
    fn as_i64(&self) -> Option<i64> {
        match self {
            J::Int(i) => Some(*i),
            _ => None,
        }
    }
    fn as_f64(&self) -> Option<f64> {
        match self {
            J::Float(f) => Some(*f),
            _ => None,
        }
    }
    fn as_bool(&self) -> Option<bool> {
        match self {
            J::Bool(b) => Some(*b),
            _ => None,
        }
    }
    fn null() -> Self {
        J::Null
    }
    /// custom functions of this data type: `boom` panics (a fault the caller catches), `nested` runs a query of its own
    /// on each argument while the outer evaluation is in progress (re-entrancy), everything else is null
    fn extension_custom(name: &str, args: Vec<std::borrow::Cow<Self>>) -> Self {
        use jsonpath_rust::JsonPath;
        match name {
            "boom" => panic!("verif: injected panic in Queryable::extension_custom"),
            "nested" => {
                let mut n = 0usize;
                for a in args.iter() {
                    n += (**a).query("$..*").map(|v| v.len()).unwrap_or(0);
                    n += (**a).query("$[?@ == @]").map(|v| v.len()).unwrap_or(0);
                    // the inner evaluation is an evaluation like any other: descendants are reported with their own paths
                    match (**a).query_only_path("$..*") {
                        Ok(ps) => { if ps.iter().any(|p| !p.starts_with("$[")) || { let mut u = ps.clone(); u.sort(); u.dedup(); u.len() != ps.len() } { return J::Bool(false); } }
                        Err(_) => return J::Bool(false),
                    }
                }
                J::Bool(n < usize::MAX)
            }
            _ => J::Null,
        }
    }
}

impl J {
    pub fn to_value(&self) -> serde_json::Value {
        use serde_json::Value;
        match self {
            J::Null => Value::Null,
            J::Bool(b) => Value::Bool(*b),
            J::Int(i) => Value::from(*i),
            J::Float(f) => Value::from(*f),
            J::Str(s) => Value::String(s.clone()),
            J::Arr(a) => Value::Array(a.iter().map(|x| x.to_value()).collect()),
            J::Obj(m) => Value::Object(m.iter().map(|(k, v)| (k.clone(), v.to_value())).collect()),
        }
    }
}

impl jsonpath_rust::JsonPath for J {}


/// `Sh`: a third faithful `Queryable` whose arrays and objects are reference-counted and SHARED between equal
/// sub-documents (hash-consing). Two different locations may therefore have the same address; an engine that relies on
/// node identity (addresses) instead of the trait's view is noticed (C15).
#[derive(Clone)]
pub enum Sh {
    Null,
    Bool(bool),
    Int(i64),
    Float(f64),
    Str(String),
    Arr(std::sync::Arc<Vec<Sh>>),
    Obj(std::sync::Arc<Vec<(String, Sh)>>),
}
/// `Debug` is deliberately LOSSY (type tag and size only): the trait requires `Debug` for diagnostics, and an engine
/// that derives behaviour from the debug text of a value must be noticed.
impl std::fmt::Debug for Sh {
    fn fmt(&self, f: &mut std::fmt::Formatter<'_>) -> std::fmt::Result {
        match self {
            Sh::Null => write!(f, "Null"),
            Sh::Bool(_) => write!(f, "Bool"),
            Sh::Int(_) => write!(f, "Int"),
            Sh::Float(_) => write!(f, "Float"),
            Sh::Str(s) => write!(f, "Str<{}>", s.len()),
            Sh::Arr(a) => write!(f, "Arr<{}>", a.len()),
            Sh::Obj(o) => write!(f, "Obj<{}>", o.len()),
        }
    }
}
impl Default for Sh {
    fn default() -> Self {
        Sh::Str("default".into())
    }
}
impl PartialEq for Sh {
    fn eq(&self, o: &Sh) -> bool {
        match (self, o) {
            (Sh::Null, Sh::Null) => true,
            (Sh::Bool(a), Sh::Bool(b)) => a == b,
            (Sh::Int(a), Sh::Int(b)) => a == b,
            (Sh::Float(a), Sh::Float(b)) => a == b,
            (Sh::Str(a), Sh::Str(b)) => a == b,
            (Sh::Arr(a), Sh::Arr(b)) => a == b,
            (Sh::Obj(a), Sh::Obj(b)) => a.len() == b.len() && a.iter().all(|(k, v)| b.iter().any(|(k2, v2)| k == k2 && v == v2)),
            _ => false,
        }
    }
}
impl From<&str> for Sh { fn from(s: &str) -> Self { Sh::Str(s.to_string()) } }
impl From<String> for Sh { fn from(s: String) -> Self { Sh::Str(s) } }
impl From<bool> for Sh { fn from(b: bool) -> Self { Sh::Bool(b) } }
impl From<i64> for Sh { fn from(i: i64) -> Self { Sh::Int(i) } }
impl From<f64> for Sh { fn from(f: f64) -> Self { Sh::Float(f) } }
impl From<Vec<Sh>> for Sh { fn from(v: Vec<Sh>) -> Self { Sh::Arr(std::sync::Arc::new(v)) } }
impl Queryable for Sh {
    fn get(&self, key: &str) -> Option<&Self> {
        let key = if key.len() >= 2 && ((key.starts_with('\'') && key.ends_with('\'')) || (key.starts_with('"') && key.ends_with('"'))) { &key[1..key.len() - 1] } else { key };
        match self { Sh::Obj(m) => m.iter().find(|(k, _)| k == key).map(|(_, v)| v), _ => None }
    }
    fn as_array(&self) -> Option<&Vec<Self>> { match self { Sh::Arr(a) => Some(a), _ => None } }
    fn as_object(&self) -> Option<Vec<(&String, &Self)>> { match self { Sh::Obj(m) => Some(m.iter().map(|(k, v)| (k, v)).collect()), _ => None } }
    fn as_str(&self) -> Option<&str> { match self { Sh::Str(s) => Some(s), _ => None } }
    fn as_i64(&self) -> Option<i64> { match self { Sh::Int(i) => Some(*i), _ => None } }
    fn as_f64(&self) -> Option<f64> { match self { Sh::Float(f) => Some(*f), Sh::Int(i) => Some(*i as f64), _ => None } }
    fn as_bool(&self) -> Option<bool> { match self { Sh::Bool(b) => Some(*b), _ => None } }
    fn null() -> Self { Sh::Null }
}
impl jsonpath_rust::JsonPath for Sh {}
impl Sh {
    /// Builds the shared representation of a JSON value: equal arrays / objects become ONE allocation.
    pub fn from_value(v: &serde_json::Value, cache: &mut std::collections::HashMap<String, Sh>) -> Sh {
        use serde_json::Value;
        match v {
            Value::Null => Sh::Null,
            Value::Bool(b) => Sh::Bool(*b),
            Value::Number(n) => n.as_i64().map(Sh::Int).unwrap_or_else(|| Sh::Float(n.as_f64().unwrap_or(0.0))),
            Value::String(s) => Sh::Str(s.clone()),
            Value::Array(_) | Value::Object(_) => {
                let key = v.to_string();
                if let Some(s) = cache.get(&key) {
                    return s.clone();
                }
                let built = match v {
                    Value::Array(a) => Sh::Arr(std::sync::Arc::new(a.iter().map(|x| Sh::from_value(x, cache)).collect())),
                    Value::Object(o) => Sh::Obj(std::sync::Arc::new(o.iter().map(|(k, x)| (k.clone(), Sh::from_value(x, cache))).collect())),
                    _ => unreachable!(),
                };
                cache.insert(key, built.clone());
                built
            }
        }
    }
    pub fn to_value(&self) -> serde_json::Value {
        use serde_json::Value;
        match self {
            Sh::Null => Value::Null,
            Sh::Bool(b) => Value::Bool(*b),
            Sh::Int(i) => Value::from(*i),
            Sh::Float(f) => Value::from(*f),
            Sh::Str(s) => Value::String(s.clone()),
            Sh::Arr(a) => Value::Array(a.iter().map(|x| x.to_value()).collect()),
            Sh::Obj(m) => Value::Object(m.iter().map(|(k, v)| (k.clone(), v.to_value())).collect()),
        }
    }
}
