//! The specification's data encodings (spec/JsonModel.tla) on the Rust side.
use crate::j::J;
use serde::{Deserialize, Serialize};
use serde_json::Value;

/// A string of the specification: a sequence of Unicode scalar values.
pub type Cps = Vec<u32>;

pub fn cps_to_string(c: &[u32]) -> String {
    c.iter()
        .map(|&u| char::from_u32(u).unwrap_or_else(|| panic!("tool error: U+{:X} is not a scalar value", u)))
        .collect()
}
pub fn string_to_cps(s: &str) -> Cps {
    s.chars().map(|c| c as u32).collect()
}

/// JSON value record `[t, b, m, e, f, s, kids, keys]` of JsonModel.tla
#[derive(Debug, Clone, Serialize, Deserialize, PartialEq)]
pub struct SVal {
    pub t: String,
    #[serde(default)]
    pub b: bool,
    #[serde(default)]
    pub m: i64,
    #[serde(default)]
    pub e: i64,
    #[serde(default)]
    pub f: bool,
    #[serde(default)]
    pub s: Cps,
    #[serde(default)]
    pub kids: Vec<SVal>,
    #[serde(default)]
    pub keys: Vec<Cps>,
}

/// One step of a location: `[k |-> "n"|"i", n, i]`
#[derive(Debug, Clone, Serialize, Deserialize, PartialEq, Eq, Hash, PartialOrd, Ord)]
pub struct Step {
    pub k: String,
    #[serde(default)]
    pub n: Cps,
    #[serde(default)]
    pub i: u64,
}
pub type Loc = Vec<Step>;

impl Step {
    pub fn name(s: &str) -> Step {
        Step { k: "n".into(), n: string_to_cps(s), i: 0 }
    }
    pub fn idx(i: usize) -> Step {
        Step { k: "i".into(), n: vec![], i: i as u64 }
    }
}

pub fn loc_display(l: &Loc) -> String {
    let mut s = String::from("$");
    for st in l {
        if st.k == "i" {
            s.push_str(&format!("[{}]", st.i));
        } else {
            s.push_str(&format!("[{:?}]", cps_to_string(&st.n)));
        }
    }
    s
}

fn num_f64(m: i64, xs: &Cps, e: i64) -> f64 {
    if m == 0 && e == -999 {
        return -0.0; // JsonModel: NegZero, the float "negative zero" (mathematically 0)
    }
    // JsonModel JNumX: the digits of |m| followed by the extra digit characters xs; Rust's parse is correctly rounded
    format!("{}{}e{}", m, cps_to_string(xs), e).parse::<f64>().expect("decimal")
}

impl SVal {
    /// `serde_json::Value` for this specification value.  Members are inserted in the spec's order;
    /// serde_json's default map sorts them by name (so Value-bound universes satisfy KeysSorted).
    pub fn to_value(&self) -> Value {
        match self.t.as_str() {
            "null" => Value::Null,
            "bool" => Value::Bool(self.b),
            "num" => {
                if !self.f && self.e >= 0 && !self.s.is_empty() {
                    // JNumX integer: digits of m, then the digit characters, then e zeros
                    let txt = format!("{}{}{}", self.m, cps_to_string(&self.s), "0".repeat(self.e as usize));
                    match txt.parse::<i64>() {
                        Ok(i) => Value::from(i),
                        Err(_) => match txt.parse::<u64>() { Ok(u) => Value::from(u), Err(_) => Value::Number(serde_json::Number::from_f64(txt.parse::<f64>().expect("decimal")).expect("finite")) },
                    }
                } else if !self.f && self.e >= 0 {
                    // integers beyond i64 are stored as u64 (serde_json does the same when parsing)
                    match 10i64.checked_pow(self.e as u32).and_then(|p| self.m.checked_mul(p)) {
                        Some(i) => Value::from(i),
                        None => Value::from((self.m as u64) * 10u64.pow(self.e as u32)),
                    }
                } else {
                    Value::Number(serde_json::Number::from_f64(num_f64(self.m, &self.s, self.e)).expect("finite"))
                }
            }
            "str" => Value::String(cps_to_string(&self.s)),
            "arr" => Value::Array(self.kids.iter().map(|k| k.to_value()).collect()),
            "obj" => Value::Object(
                self.keys
                    .iter()
                    .zip(self.kids.iter())
                    .map(|(k, v)| (cps_to_string(k), v.to_value()))
                    .collect(),
            ),
            t => panic!("tool error: value tag {t}"),
        }
    }
    /// The same value in the second `Queryable` representation (insertion order kept).
    pub fn to_j(&self) -> J {
        match self.t.as_str() {
            "null" => J::Null,
            "bool" => J::Bool(self.b),
            "num" => {
                if !self.f && self.e >= 0 {
                    match 10i64.checked_pow(self.e as u32).and_then(|p| self.m.checked_mul(p)) {
                        Some(i) => J::Int(i),
                        None => J::Float(num_f64(self.m, &self.s, self.e)),
                    }
                } else {
                    J::Float(num_f64(self.m, &self.s, self.e))
                }
            }
            "str" => J::Str(cps_to_string(&self.s)),
            "arr" => J::Arr(self.kids.iter().map(|k| k.to_j()).collect()),
            "obj" => J::Obj(
                self.keys
                    .iter()
                    .zip(self.kids.iter())
                    .map(|(k, v)| (cps_to_string(k), v.to_j()))
                    .collect(),
            ),
            t => panic!("tool error: value tag {t}"),
        }
    }
    /// Is the member order of every object sorted by name (what serde_json's BTreeMap yields)?
    pub fn keys_sorted(&self) -> bool {
        let here = self.keys.windows(2).all(|w| cps_to_string(&w[0]) < cps_to_string(&w[1]));
        here && self.kids.iter().all(|k| k.keys_sorted())
    }
    pub fn blank(t: &str) -> SVal {
        SVal { t: t.into(), b: false, m: 0, e: 0, f: false, s: vec![], kids: vec![], keys: vec![] }
    }
    /// Spec encoding of a `serde_json::Value` (used by the recorder: impl -> spec direction).
    /// Numbers must be integers or decimals with a short mantissa; returns None otherwise.
    pub fn from_value(v: &Value) -> Option<SVal> {
        Some(match v {
            Value::Null => SVal::blank("null"),
            Value::Bool(b) => SVal { b: *b, ..SVal::blank("bool") },
            Value::Number(n) => {
                // up to 8 leading digits in m, the rest as digit characters in s (JsonModel.JNumX): TLC's integers are 32-bit
                let split = |neg: bool, digits: &str| -> (i64, Cps) {
                    let d = digits.trim_start_matches('0');
                    let d = if d.is_empty() { "0" } else { d };
                    let (hi, lo) = d.split_at(d.len().min(8));
                    let m: i64 = hi.parse().unwrap_or(0);
                    (if neg { -m } else { m }, string_to_cps(lo))
                };
                if let Some(i) = n.as_i64() {
                    let (m, s) = split(i < 0, &i.unsigned_abs().to_string());
                    SVal { m, s, ..SVal::blank("num") }
                } else if let Some(u) = n.as_u64() {
                    let (m, s) = split(false, &u.to_string());
                    SVal { m, s, ..SVal::blank("num") }
                } else {
                    let f = n.as_f64()?;
                    if !f.is_finite() {
                        return None;
                    }
                    if f == 0.0 {
                        return Some(SVal { m: 0, e: if f.is_sign_negative() { -999 } else { 0 }, f: true, ..SVal::blank("num") });
                    }
                    let txt = format!("{:e}", f); // shortest round-trip digits, e.g. 1.5e0, -2e-20
                    let (mant, exp) = txt.split_once('e')?;
                    let exp: i64 = exp.parse().ok()?;
                    let neg = mant.starts_with('-');
                    let mant = mant.trim_start_matches('-');
                    let (ip, fp) = mant.split_once('.').unwrap_or((mant, ""));
                    let (m, s) = split(neg, &format!("{}{}", ip, fp));
                    SVal { m, s, e: exp - fp.len() as i64, f: true, ..SVal::blank("num") }
                }
            }
            Value::String(s) => SVal { s: string_to_cps(s), ..SVal::blank("str") },
            Value::Array(a) => SVal {
                kids: a.iter().map(SVal::from_value).collect::<Option<Vec<_>>>()?,
                ..SVal::blank("arr")
            },
            Value::Object(o) => SVal {
                keys: o.keys().map(|k| string_to_cps(k)).collect(),
                kids: o.values().map(SVal::from_value).collect::<Option<Vec<_>>>()?,
                ..SVal::blank("obj")
            },
        })
    }
}

/// m, e with f == m * 10^e exactly as printed by Rust's shortest round-trip formatting.
pub fn decimal_of(f: f64) -> Option<(i64, i64)> {
    if !f.is_finite() {
        return None;
    }
    let s = format!("{:e}", f); // e.g. 1.5e0, -2e-20
    let (mant, exp) = s.split_once('e')?;
    let exp: i64 = exp.parse().ok()?;
    let (ip, fp) = mant.split_once('.').unwrap_or((mant, ""));
    let digits = format!("{}{}", ip, fp);
    let m: i64 = digits.parse().ok()?;
    if m.abs() >= 100_000_000 {
        return None;
    }
    Some((m, exp - fp.len() as i64))
}
