//! Conformance harness: binds the TLA+ specification in /verif/spec to the real jsonpath-rust code.
//!
//! * `model`  - the specification's encodings (values, locations, strings as code points) and their
//!              conversion to `serde_json::Value` and to the second `Queryable` type `J`
//! * `j`      - `J`, a second, differently represented implementation of `Queryable` (C15)
//! * `addr`   - node identity by address: maps `*const T` of every node of a document to its location
pub mod addr;
pub mod ast;
pub mod j;
pub mod model;

use std::panic::{catch_unwind, AssertUnwindSafe};

/// Runs `f`, turning a panic of the code under test into data (C08: a panic is an observation, not a tool error).
pub fn guarded<R>(f: impl FnOnce() -> R) -> Result<R, String> {
    catch_unwind(AssertUnwindSafe(f)).map_err(|e| {
        if let Some(s) = e.downcast_ref::<&str>() {
            s.to_string()
        } else if let Some(s) = e.downcast_ref::<String>() {
            s.clone()
        } else {
            "panic".to_string()
        }
    })
}

pub fn quiet_panics() {
    std::panic::set_hook(Box::new(|_| {}));
}
