//! C08: executes calls of the public entry points in THIS (child) process and logs one event before and
//! one event after every call, flushed immediately.  A panic is caught and logged as the call's outcome;
//! an abort (stack overflow, capacity overflow in alloc, ...) or a hang kills the process, which the
//! parent (lib/checklib.py) observes as "call without return" plus the exit status / its own timeout.
//!
//! stdin : one case per line  {"id":..., "q":[code points], "doc": <spec value> | {"nest":n,"kind":"arr"|"obj"} }
//! stdout: {"ev":"call","id":..,"entry":..}  {"ev":"return","id":..,"entry":..,"outcome":"ok"|"err"|"panic","n":..}
use jsonpath_rust::parser::parse_json_path;
use jsonpath_rust::query::js_path_process;
use jsonpath_rust::JsonPath;
use serde_json::{json, Value};
use std::io::{BufRead, Write};
use verif_harness::model::*;
use verif_harness::{guarded, quiet_panics};

fn nested(kind: &str, n: u64) -> Value {
    let mut v = json!(1);
    for _ in 0..n {
        v = if kind == "obj" { json!({ "a": v }) } else { json!([v]) };
    }
    v
}

fn emit(out: &mut impl Write, v: Value) {
    writeln!(out, "{}", v).unwrap();
    out.flush().unwrap();
}

fn main() {
    quiet_panics();
    let stdin = std::io::stdin();
    let mut out = std::io::stdout();
    for line in stdin.lock().lines() {
        let line = line.expect("read");
        if line.trim().is_empty() {
            continue;
        }
        let case: Value = serde_json::from_str(&line).expect("case json");
        let id = case["id"].clone();
        let q = match &case["q"] {
            Value::String(s) => s.clone(),
            v => cps_to_string(&serde_json::from_value::<Cps>(v.clone()).expect("q code points")),
        };
        let doc: Value = if let Some(n) = case["doc"].get("nest") {
            let kind = case["doc"]["kind"].as_str().unwrap_or("arr");
            if let Some(k) = kind.strip_prefix("pair") {
                // two EQUAL deep documents side by side
                let d = nested(k, n.as_u64().unwrap());
                json!([d.clone(), d])
            } else {
                nested(kind, n.as_u64().unwrap())
            }
        } else if case["doc"].is_null() {
            json!({"a": [1, 2, {"b": "x"}], "b": "a"})
        } else {
            serde_json::from_value::<SVal>(case["doc"].clone()).expect("doc").to_value()
        };
        // 1. parse
        emit(&mut out, json!({"ev":"call","id":id,"entry":"parse_json_path"}));
        let parsed = guarded(|| parse_json_path(&q));
        let (po, pq) = match parsed {
            Err(p) => (json!({"outcome":"panic","detail":p}), None),
            Ok(Err(e)) => (json!({"outcome":"err","detail":e.to_string().chars().take(120).collect::<String>()}), None),
            Ok(Ok(jq)) => (json!({"outcome":"ok"}), Some(jq)),
        };
        let mut r = json!({"ev":"return","id":id,"entry":"parse_json_path"});
        r["outcome"] = po["outcome"].clone();
        r["detail"] = po["detail"].clone();
        emit(&mut out, r);
        // 2. the three string entry points
        for entry in ["query", "query_with_path", "query_only_path"] {
            emit(&mut out, json!({"ev":"call","id":id,"entry":entry}));
            let res = guarded(|| match entry {
                "query" => doc.query(&q).map(|v| v.len()),
                "query_with_path" => doc.query_with_path(&q).map(|v| v.len()),
                _ => doc.query_only_path(&q).map(|v| v.len()),
            });
            let mut r = json!({"ev":"return","id":id,"entry":entry});
            match res {
                Err(p) => { r["outcome"] = json!("panic"); r["detail"] = json!(p); }
                Ok(Err(e)) => { r["outcome"] = json!("err"); r["detail"] = json!(e.to_string().chars().take(120).collect::<String>()); }
                Ok(Ok(n)) => { r["outcome"] = json!("ok"); r["n"] = json!(n); }
            }
            emit(&mut out, r);
        }
        // 2b. the same string handed to reference / reference_mut as a path: Some or None, whatever the string
        {
            use jsonpath_rust::query::queryable::Queryable;
            emit(&mut out, json!({"ev":"call","id":id,"entry":"reference"}));
            let res = guarded(|| doc.reference(q.clone()).is_some());
            let mut r = json!({"ev":"return","id":id,"entry":"reference"});
            match res {
                Err(p) => { r["outcome"] = json!("panic"); r["detail"] = json!(p); }
                Ok(b) => { r["outcome"] = json!(if b { "some" } else { "none" }); }
            }
            emit(&mut out, r);
            emit(&mut out, json!({"ev":"call","id":id,"entry":"reference_mut"}));
            let mut copy = doc.clone();
            let res = guarded(|| copy.reference_mut(q.clone()).is_some());
            let mut r = json!({"ev":"return","id":id,"entry":"reference_mut"});
            match res {
                Err(p) => { r["outcome"] = json!("panic"); r["detail"] = json!(p); }
                Ok(b) => { r["outcome"] = json!(if b { "some" } else { "none" }); }
            }
            emit(&mut out, r);
        }
        // 3. evaluating a successfully parsed query always succeeds
        if let Some(jq) = pq {
            emit(&mut out, json!({"ev":"call","id":id,"entry":"js_path_process"}));
            let res = guarded(|| js_path_process(&jq, &doc).map(|v| v.len()));
            let mut r = json!({"ev":"return","id":id,"entry":"js_path_process"});
            match res {
                Err(p) => { r["outcome"] = json!("panic"); r["detail"] = json!(p); }
                Ok(Err(e)) => { r["outcome"] = json!("err"); r["detail"] = json!(e.to_string()); }
                Ok(Ok(n)) => { r["outcome"] = json!("ok"); r["n"] = json!(n); }
            }
            emit(&mut out, r);
        }
    }
}
