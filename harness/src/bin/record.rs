//! impl -> spec: seeded random drivers.  They are NOT oracles: they only choose which inputs the real code is
//! run on; every verdict comes from TLC checking the recorded events against the trace specifications.
//!
//!   record strings --seed S --n N          cases for the worker (C08): random / near-valid query strings
//!   record eval    --seed S --n N          runs the real code on random (document, query) pairs and records
//!                                          {"ev":"eval", q, doc, outcome, res:[locations], paths:[strings]}
use jsonpath_rust::JsonPath;
use rand::rngs::StdRng;
use rand::seq::SliceRandom;
use rand::{Rng, SeedableRng};
use serde_json::{json, Value};
use verif_harness::addr::AddrMap;
use verif_harness::model::*;
use verif_harness::{guarded, quiet_panics};

const NAMES: &[&str] = &["a", "b", "c", "ab", "a b", "é", "😀", "", "0", "_x1"];
const BLANKS: &[&str] = &["", "", "", "", " ", "\t", "\n", "\r", "  "];

/// numbers of 10 to 15 significant digits (JsonModel.JNumX); with at most 15 digits different decimals are different doubles
const LONG_NUMBERS: &[&str] = &["0.123456789012345", "1234567.89012345", "98765432101234", "1.00000000000001", "12345678901234e-20", "-0.000123456789012345",
    "0.123456789012346", "4503599627370496", "-98765432101234", "1234567890.5", "9.99999999999999e22", "123456789012345e-7"];

struct G {
    r: StdRng,
}
impl G {
    fn pick<'a>(&mut self, xs: &[&'a str]) -> &'a str {
        xs.choose(&mut self.r).unwrap()
    }
    fn s(&mut self) -> String {
        self.pick(BLANKS).to_string()
    }
    fn int(&mut self) -> String {
        match self.r.gen_range(0..12) {
            0 => "9007199254740991".into(),
            1 => "-9007199254740991".into(),
            2 => "9007199254740990".into(),
            3 => "-1".into(),
            4 => "-2".into(),
            _ => self.r.gen_range(0..5).to_string(),
        }
    }
    fn strlit(&mut self, name: &str) -> String {
        let q = if self.r.gen_bool(0.5) { '\'' } else { '"' };
        let mut s = String::new();
        s.push(q);
        for c in name.chars() {
            if c == q || c == '\\' {
                s.push('\\');
                s.push(c);
            } else if self.r.gen_range(0..20) == 0 && (c as u32) < 0x10000 {
                s.push_str(&format!("\\u{:04X}", c as u32));
            } else {
                s.push(c);
            }
        }
        s.push(q);
        s
    }
    fn shorthand_ok(name: &str) -> bool {
        let mut cs = name.chars();
        match cs.next() {
            Some(c) if c.is_ascii_alphabetic() || c == '_' || (c as u32) >= 0x80 => {}
            _ => return false,
        }
        cs.all(|c| c.is_ascii_alphanumeric() || c == '_' || (c as u32) >= 0x80)
    }
    fn selector(&mut self, depth: u32) -> String {
        match self.r.gen_range(0..10) {
            0 | 1 | 2 => {
                let n = self.pick(NAMES);
                self.strlit(n)
            }
            3 => "*".into(),
            4 | 5 => self.int(),
            6 | 7 => {
                let mut s = String::new();
                if self.r.gen_bool(0.6) {
                    s += &self.int();
                    s += &self.s();
                }
                s += ":";
                s += &self.s();
                if self.r.gen_bool(0.6) {
                    s += &self.int();
                    s += &self.s();
                }
                if self.r.gen_bool(0.5) {
                    s += ":";
                    if self.r.gen_bool(0.7) {
                        s += &self.s();
                        s += &match self.r.gen_range(0..6) { 0 => "0".to_string(), 1 => "-1".to_string(), 2 => "-2".to_string(), _ => self.int() };
                    }
                }
                s
            }
            _ if depth > 0 => format!("?{}{}", self.s(), self.lor(depth - 1)),
            _ => "*".into(),
        }
    }
    fn segment(&mut self, depth: u32) -> String {
        let desc = self.r.gen_range(0..5) == 0;
        let dots = if desc { ".." } else { "." };
        match self.r.gen_range(0..6) {
            0 => format!("{}*", dots),
            1 | 2 => {
                let n = self.pick(NAMES);
                if Self::shorthand_ok(n) { format!("{}{}", dots, n) } else { format!("{}[{}]", if desc { ".." } else { "" }, self.strlit(n)) }
            }
            _ => {
                let k = if self.r.gen_range(0..4) == 0 { self.r.gen_range(2..4) } else { 1 };
                let mut s = String::from(if desc { "..[" } else { "[" });
                s += &self.s();
                for i in 0..k {
                    if i > 0 {
                        s += &self.s();
                        s += ",";
                        s += &self.s();
                    }
                    s += &self.selector(depth);
                }
                s += &self.s();
                s += "]";
                s
            }
        }
    }
    fn segments(&mut self, max: u32, depth: u32) -> String {
        let n = self.r.gen_range(0..=max);
        (0..n).map(|_| format!("{}{}", self.s(), self.segment(depth))).collect()
    }
    fn singular(&mut self) -> String {
        let mut s = String::from(if self.r.gen_range(0..4) == 0 { "$" } else { "@" });
        for _ in 0..self.r.gen_range(0..3) {
            if self.r.gen_bool(0.7) {
                let n = self.pick(NAMES);
                if Self::shorthand_ok(n) && self.r.gen_bool(0.6) { s += &format!(".{}", n) } else { s += &format!("[{}]", self.strlit(n)) }
            } else {
                s += &format!("[{}]", self.int());
            }
        }
        s
    }
    fn literal(&mut self) -> String {
        if self.r.gen_range(0..8) == 0 {
            return self.pick(LONG_NUMBERS).to_string();
        }
        match self.r.gen_range(0..10) {
            0 => "true".into(),
            1 => "false".into(),
            2 => "null".into(),
            3 => "1.5".into(),
            4 => "1e2".into(),
            5 => "100".into(),
            6 | 7 => {
                let n = self.pick(NAMES);
                self.strlit(n)
            }
            _ => self.r.gen_range(-1..4).to_string(),
        }
    }
    fn comparable(&mut self, depth: u32) -> String {
        match self.r.gen_range(0..7) {
            0 | 1 => self.literal(),
            2 | 3 | 4 => self.singular(),
            5 => format!("length({}{})", self.s(), self.singular()),
            _ => {
                let q = format!("@{}", self.segments(2, depth.min(1)));
                if self.r.gen_bool(0.5) { format!("count({})", q) } else { format!("value({})", q) }
            }
        }
    }
    fn basic(&mut self, depth: u32) -> String {
        match self.r.gen_range(0..10) {
            0 | 1 | 2 => {
                let op = self.pick(&["==", "!=", "<", "<=", ">", ">="]);
                format!("{}{}{}{}{}", self.comparable(depth), self.s(), op, self.s(), self.comparable(depth))
            }
            3 | 4 | 5 => {
                let not = if self.r.gen_range(0..4) == 0 { format!("!{}", self.s()) } else { String::new() };
                let root = if self.r.gen_range(0..5) == 0 { "$" } else { "@" };
                format!("{}{}{}", not, root, self.segments(2, depth))
            }
            6 => {
                let f = self.pick(&["match", "search"]);
                let p = self.pick(&["a", "a.*", "[ab]", "a|b", ".", "b+", "(a|b)*", "["]).to_string();
                let p = if self.r.gen_range(0..3) == 0 { format!("{}x{}", p.replace('[', ""), self.r.gen_range(0..400)) } else { p };
                format!("{}({}{}{},{}'{}'{})", f, self.s(), self.singular(), self.s(), self.s(), p, self.s())
            }
            _ if depth > 0 => {
                let not = if self.r.gen_range(0..3) == 0 { "!" } else { "" };
                format!("{}({}{}{})", not, self.s(), self.lor(depth - 1), self.s())
            }
            _ => self.singular(),
        }
    }
    fn land(&mut self, depth: u32) -> String {
        let n = if self.r.gen_range(0..4) == 0 { 2 } else { 1 };
        (0..n).map(|_| self.basic(depth)).collect::<Vec<_>>().join(&format!("{}&&{}", self.pick(BLANKS), self.pick(BLANKS)))
    }
    fn lor(&mut self, depth: u32) -> String {
        let n = if self.r.gen_range(0..4) == 0 { 2 } else { 1 };
        (0..n).map(|_| self.land(depth)).collect::<Vec<_>>().join(&format!("{}||{}", self.pick(BLANKS), self.pick(BLANKS)))
    }
    fn query(&mut self) -> String {
        format!("${}", self.segments(4, 2))
    }
    /// zero, one or two random edits
    fn mutate(&mut self, q: String) -> String {
        let toks = ["$", "@", ".", "..", "[", "]", "*", "?", "(", ")", "!", "&&", "||", "==", "<", ",", ":", "'", "\"", "\\", " ", "0", "1", "-", "a", "é", "\u{1}", "01", "-0", "9007199254740992", "e", "E", "+"];
        let mut cs: Vec<char> = q.chars().collect();
        let edits = match self.r.gen_range(0..10) { 0..=3 => 0, 4..=7 => 1, _ => 2 };
        for _ in 0..edits {
            let pos = self.r.gen_range(0..=cs.len());
            match self.r.gen_range(0..3) {
                0 if pos < cs.len() => { cs.remove(pos); }
                1 if pos < cs.len() => { let t = self.pick(&toks); cs.splice(pos..pos + 1, t.chars()); }
                _ => { let t = self.pick(&toks); cs.splice(pos..pos, t.chars()); }
            }
        }
        cs.into_iter().collect()
    }
    fn garbage(&mut self) -> String {
        let toks = ["$", "@", ".", "..", "[", "]", "*", "?", "(", ")", "!", "&&", "||", "==", "!=", "<=", ">", ",", ":", "'a'", "\"b\"", "a", "_x", "0", "1", "-1", "1.5", "1e2", "true", "null", "length", "count(", "match(", " ", "\n", "'", "\\", "\\u0041", "é", "😀", "01", "-0", "\u{0}", "\u{7f}", "\u{fffd}"];
        let n = self.r.gen_range(0..14);
        let mut s = if self.r.gen_bool(0.8) { String::from("$") } else { String::new() };
        for _ in 0..n {
            s += self.pick(&toks);
        }
        s
    }
    fn scalar(&mut self) -> Value {
        if self.r.gen_range(0..8) == 0 {
            // the same decimals as the long literals (as doubles / integers of the document)
            let t = self.pick(LONG_NUMBERS);
            return match t.parse::<i64>() { Ok(i) => json!(i), Err(_) => json!(t.parse::<f64>().unwrap()) };
        }
        match self.r.gen_range(0..12) {
            0 => Value::Null,
            1 => json!(true),
            2 => json!(false),
            3 => json!(1.5),
            4 => json!(100),
            5 => json!(100.0),
            6 => json!(""),
            7 => json!("ab"),
            8 => json!("a"),
            9 => json!("😀é"),
            _ => json!(self.r.gen_range(-1..4)),
        }
    }
    fn doc(&mut self, depth: u32) -> Value {
        if depth == 0 || self.r.gen_range(0..4) == 0 {
            return self.scalar();
        }
        if self.r.gen_bool(0.5) {
            let n = self.r.gen_range(0..4);
            Value::Array((0..n).map(|_| self.doc(depth - 1)).collect())
        } else {
            let n = self.r.gen_range(0..4);
            let mut m = serde_json::Map::new();
            for _ in 0..n {
                let k = self.pick(NAMES).to_string();
                let v = self.doc(depth - 1);
                m.insert(k, v);
            }
            Value::Object(m)
        }
    }
}

const ABSENT: i64 = 2_000_000_000;
const BIG: i64 = 1_073_741_824;
const MAXI: i64 = 9_007_199_254_740_991;
/// The specification's 32-bit encoding of an integer (JPSyntax.tla: BIG stands for 2^53-1).
fn enc_int(i: i64) -> i64 {
    if i.abs() <= 1_000_000 {
        i
    } else {
        let d = i.abs() - MAXI;
        let m = if (-2..=2).contains(&d) { BIG + d } else if d > 2 { BIG + 2 } else { BIG - 3 };
        if i < 0 { -m } else { m }
    }
}
fn enc_opt(v: &Value) -> i64 {
    v.as_i64().map(enc_int).unwrap_or(ABSENT)
}
fn operand_sval(o: &Value) -> Option<SVal> {
    match o["kind"].as_str()? {
        "value" => SVal::from_value(&o["value"]),
        "nothing" => Some(SVal::blank("nothing")),
        _ => None,
    }
}

/// Turns the raw hook events of one evaluation into the specification's encoding.
fn internal_events(raw: Vec<String>, am: &AddrMap<Value>, by_addr: &std::collections::HashMap<usize, Loc>) -> Vec<Value> {
    let _ = am;
    let mut out = vec![];
    for r in raw {
        let Ok(e) = serde_json::from_str::<Value>(&r) else { continue };
        match e["ev"].as_str() {
            Some("slice") => {
                let Some(len) = e["len"].as_u64() else { continue };
                if len > 1000 { continue; }
                out.push(json!({"ev": "slice", "len": len, "start": enc_opt(&e["start"]), "end": enc_opt(&e["end"]), "step": enc_opt(&e["step"]),
                                "emitted": e["emitted"], "iters": e["iters"]}));
            }
            Some("cmp") => {
                let (Some(l), Some(r), Some(res)) = (operand_sval(&e["operands"][0]), operand_sval(&e["operands"][1]), e["result"].as_bool()) else { continue };
                out.push(json!({"ev": "cmp", "op": e["op"], "l": l, "r": r, "result": res}));
            }
            Some("fn") => {
                // arguments and result of a function extension, in the specification's encoding
                let conv = |o: &Value| -> Option<Value> {
                    match o["kind"].as_str()? {
                        "value" => Some(json!({"kind": "value", "n": 1, "v": SVal::from_value(&o["value"])?})),
                        "nothing" => Some(json!({"kind": "nothing", "n": 0, "v": SVal::blank("nothing")})),
                        "nodes" => {
                            let n = o["n"].as_u64()?;
                            let v = if n == 1 { SVal::from_value(&o["values"][0])? } else { SVal::blank("nothing") };
                            Some(json!({"kind": "nodes", "n": n, "v": v}))
                        }
                        _ => None,
                    }
                };
                let args: Option<Vec<Value>> = e["args"].as_array().map(|a| a.iter().map(conv).collect()).unwrap_or(None);
                let (Some(args), Some(res)) = (args, conv(&e["result"])) else { continue };
                out.push(json!({"ev": "fn", "name": e["name"], "args": args, "result": res}));
            }
            Some("seg") if e["depth"].as_u64() == Some(1) => {
                let conv = |v: &Value| -> Option<Vec<Loc>> {
                    v.as_array()?.iter().map(|a| by_addr.get(&(a.as_u64()? as usize)).cloned()).collect()
                };
                match (conv(&e["inp"]), conv(&e["out"])) {
                    (Some(i), Some(o)) => out.push(json!({"ev": "seg", "k": e["k"], "inp": i, "out": o, "inside": true})),
                    _ => out.push(json!({"ev": "seg", "k": e["k"], "inp": [], "out": [], "inside": false})),
                }
            }
            _ => {}
        }
    }
    out
}

fn main() {
    quiet_panics();
    let args: Vec<String> = std::env::args().collect();
    let mode = args.get(1).cloned().unwrap_or_default();
    let mut seed = 0u64;
    let mut n = 100usize;
    let mut part = String::from("docs");
    let mut i = 2;
    while i < args.len() {
        match args[i].as_str() {
            "--seed" => { seed = args[i + 1].parse().unwrap(); i += 1; }
            "--n" => { n = args[i + 1].parse().unwrap(); i += 1; }
            "--part" => { part = args[i + 1].clone(); i += 1; }
            _ => {}
        }
        i += 1;
    }
    let mut g = G { r: StdRng::seed_from_u64(seed) };
    match mode.as_str() {
        "strings" => {
            for k in 0..n {
                let q = match k % 5 { 0 => g.garbage(), _ => { let q = g.query(); g.mutate(q) } };
                println!("{}", json!({"id": ["rand", seed, k], "q": string_to_cps(&q)}));
            }
        }
        "eval" => {
            let mut k = 0;
            while k < n {
                let doc = g.doc(3);
                let Some(sdoc) = SVal::from_value(&doc) else { continue };
                let am = AddrMap::new(&doc);
                let by_addr: std::collections::HashMap<usize, Loc> =
                    am.locs.iter().filter_map(|l| verif_harness::addr::lookup(&doc, l).map(|v| (v as *const Value as usize, l.clone()))).collect();
                for _ in 0..4 {
                    let q = { let q = g.query(); if g.r.gen_range(0..6) == 0 { g.mutate(q) } else { q } };
                    #[cfg(jsonpath_rust_verif)]
                    jsonpath_rust::verif::install();
                    let res = guarded(|| doc.query_with_path(&q));
                    #[cfg(jsonpath_rust_verif)]
                    let raw = jsonpath_rust::verif::take();
                    #[cfg(not(jsonpath_rust_verif))]
                    let raw: Vec<String> = vec![];
                    let mut e = json!({"ev": "eval", "id": ["eval", seed, k], "q": string_to_cps(&q), "doc": sdoc});
                    e["internal"] = json!(internal_events(raw, &am, &by_addr));
                    // the AST the implementation's parser built, in the specification's encoding (absent when it
                    // contains something the encoding does not cover: escapes, huge numbers)
                    if let Ok(Ok(jq)) = guarded(|| jsonpath_rust::parser::parse_json_path(&q)) {
                        if let Some(a) = verif_harness::ast::segs_json(&jq.segments) {
                            e["ast"] = a;
                        }
                    }
                    match res {
                        Err(p) => { e["outcome"] = json!("panic"); e["detail"] = json!(p); }
                        Ok(Err(_)) => { e["outcome"] = json!("err"); }
                        Ok(Ok(rs)) => {
                            e["outcome"] = json!("ok");
                            let mut locs = vec![];
                            let mut paths = vec![];
                            let mut inside = true;
                            for r in rs {
                                let v = r.clone().val();
                                match am.loc_of(v) { Some(l) => locs.push(l.clone()), None => inside = false }
                                paths.push(string_to_cps(&r.path()));
                            }
                            e["res"] = json!(locs);
                            e["paths"] = json!(paths);
                            e["inside"] = json!(inside);
                        }
                    }
                    println!("{}", e);
                    k += 1;
                }
            }
        }
        "large" => {
            let size = n.max(200);
            let mut k = 0;
            // a few LARGE documents first (thousands of elements / members, long strings and names)
            let big_arr = Value::Array((0..size).map(|i| json!(i)).collect());
            let big_obj = Value::Object((0..size / 2).map(|i| (format!("k{:04}", i), json!(i % 7))).collect());
            let long_name: String = std::iter::repeat("é😀ab").take(300).collect();
            let big_mix = json!({"s": "x".repeat(size + 2000), "u": "😀".repeat(1200), long_name.clone(): [1, 2, 3], "a": (0..150).map(|i| json!({"a": i, "b": [i, i + 1]})).collect::<Vec<_>>()});
            // two-level fan-out: a small first child followed by a child with thousands of children
            let two_level = json!({"a": [1, 2, 3], "b": (0..2100).map(|i| json!(i)).collect::<Vec<_>>()});
            // powers of ten as indexes
            let arr1100 = Value::Array((0..1100).map(|i| json!(i)).collect());
            let large: Vec<(Value, Vec<String>)> = if part == "huge" {
                // one array beyond 100 000 elements: five- and six-digit indexes
                // ... and one beyond 1 000 000 elements (seven-digit indexes; two events only - each carries the document)
                vec![(Value::Array((0..100_003usize).map(|i| json!(i % 10)).collect()), vec!["$[100000]".to_string(), "$[-1]".to_string(), "$[99998:100001]".to_string(), "$[-100003,99999,100002]".to_string()]),
                     (Value::Array((0..1_000_003usize).map(|i| json!(i % 10)).collect()), vec!["$[1000000,999999]".to_string(), "$[-2:]".to_string()])]
            } else if part == "text" {
                // LARGE QUERY TEXT (C06/C13): thousands of blanks at every place the grammar allows them; a member name of
                // 12 000 characters in shorthand and bracket notation (part textnames: TLC needs minutes per event)
                let name12k: String = std::iter::repeat("abcdefghij_\u{e9}").take(1000).collect();
                let name24k: String = std::iter::repeat("abcdefghij_\u{e9}").take(2000).collect();      // 24 000 characters
                let small = json!({name12k.clone(): [1, {"a": 2}], "a": [3, 4], name24k.clone(): {"a": [5]}});
                let b = " ".repeat(n.max(200) * 8);
                let t = "\t\n\r ".repeat(n.max(200) * 2);
                vec![(small, vec![format!("$.{}", name24k), format!("$..{}.a[0]", name24k), format!("$.{}", name12k), format!("$['{}']", name12k), format!("$[\"{}\"]", name12k), format!("$..{}", name12k), format!("$..['{}'][1].a", name12k),
                                  format!("$[?@.{}]", name12k), format!("$..{}[?@.a == 2]", name12k),
                                  format!("${b}[{b}'a'{b}]{b}[{b}0{b}]"), format!("${t}.a{t}[{t}0{t}:{t}2{t}:{t}1{t},{t}-1{t}]"), format!("$[{b}?{b}@{b}=={b}3{b}||{b}@{b}<{b}1{b}]"),
                                  format!("$.a[?{t}({t}@{t}>{t}3{t}){t}&&{t}!{t}({t}@{t}=={t}5{t}){t}]"), "$['a'][0]".to_string(), "$.a[0:2:1,-1]".to_string(), "$.a[?(@>3)&&!(@==5)]".to_string()])]
            } else { vec![
                (big_arr, vec![format!("$[{}]", (0..150).map(|i| ((i * 7) % (size + 50)).to_string()).collect::<Vec<_>>().join(",")),     // one segment of 150 selectors (TLC's parser is quadratic in their number)
                               format!("$[{}]", size - 1), format!("$[-{}]", size), format!("$[{}]", size), format!("$[{}:{}]", size / 3, size / 3 + 10), format!("$[::-{}]", size / 6), format!("$[{}:]", size - 10), format!("$[?@ >= {}]", size - 5), format!("$[?@ == 100 || @ == {}]", size - 100), format!("$..[100,{}]", size - 7), "$[-1,0,-1]".to_string(), "$[?@ < 3][?@]".to_string()]),
                (big_obj, vec![format!("$.k{:04}", size / 2 - 1), format!("$['k0000','k{:04}']", size / 2 - 1), "$[?@ == 6]".to_string(), "$..[?@ > 5]".to_string(), format!("$.k{:04}", size / 2), "$[?@ == 0 && @ != 1].x".to_string()]),
                (big_mix, vec![format!("$[?length(@) > {}]", size + 1999), "$[?length(@) == 1200]".to_string(), format!("$['{}'][1]", long_name), format!("$..['{}'][::-1]", long_name),
                               "$.a[?@.a > 145].b[1]".to_string(), "$.a[100].b[-1]".to_string(), "$.a..b[0]".to_string(), "$.a[?count(@.b[*]) == 2 && @.a == 149]".to_string(), "$..a[149]".to_string()]),
                // few distinct values, interleaved; slices with a negative step given with and without explicit bounds, one after the other
                (Value::Array((0..size).map(|i| json!(i % 3)).collect()), vec!["$[?@ > 0]".to_string(), "$[?@ != 1]".to_string(), "$[?@ == 2 || @ == 0]".to_string(),
                               "$[0::-1]".to_string(), "$[::-1]".to_string(), format!("$[:{}:-7]", size), "$[::-7]".to_string(), "$[0::-7]".to_string(), "$[::-7]".to_string(),
                               format!("$[{}::-5]", size - 1), "$[::-5]".to_string(), "$[::5]".to_string(), "$[0::5]".to_string(), format!("$[0:{}:5]", size), "$[::5]".to_string()]),
                (two_level, vec!["$[*][*]".to_string(), "$..*".to_string(), "$.*[0:]".to_string(), "$[*][?@ != null]".to_string(), "$..[0]".to_string(), "$[*][-1]".to_string()]),
                (arr1100, vec!["$[1000]".to_string(), "$[999:1002]".to_string(), "$[-100]".to_string(), "$[?@ == 1000 || @ == 100 || @ == 10]".to_string(), "$[10,100,1000,1]".to_string(), "$..[1000]".to_string()]),
            ] };
            // history: the process has used reference / reference_mut before (state they leave behind must not matter)
            {
                use jsonpath_rust::query::queryable::Queryable;
                let mut scratch = json!({"a": {"b": [1, 2, 3]}});
                let _ = guarded(|| scratch.reference("$['a']['b'][1]").is_some());
                let _ = guarded(|| scratch.reference_mut("$['a']['b'][2]").map(|v| *v = json!(9)).is_some());
            }
            for (doc, qs) in large.iter() {
                let Some(sdoc) = SVal::from_value(doc) else { continue };
                let am = AddrMap::new(doc);
                for q in qs {
                    let res = guarded(|| doc.query_with_path(q));
                    let mut e = json!({"ev": "eval", "id": ["large", seed, k], "q": string_to_cps(q), "doc": sdoc, "internal": []});
                    match res {
                        Err(p) => { e["outcome"] = json!("panic"); e["detail"] = json!(p); }
                        Ok(Err(_)) => { e["outcome"] = json!("err"); }
                        Ok(Ok(rs)) => {
                            e["outcome"] = json!("ok");
                            let mut locs = vec![]; let mut paths = vec![]; let mut inside = true;
                            for r in rs {
                                let v = r.clone().val();
                                match am.loc_of(v) { Some(l) => locs.push(l.clone()), None => inside = false }
                                paths.push(string_to_cps(&r.path()));
                            }
                            e["res"] = json!(locs); e["paths"] = json!(paths); e["inside"] = json!(inside);
                        }
                    }
                    println!("{}", e);
                    k += 1;
                }
            }
        }
        _ => {
            eprintln!("usage: record strings|eval|large --seed S --n N");
            std::process::exit(2);
        }
    }
}
