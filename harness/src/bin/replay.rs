//! spec -> impl: replays behaviours exported by TLC (one JSON record per line) into the real code
//! and compares every observation with what the specification computed.
//!
//! usage: replay --checks nodes,order,paths,entry,j  <cases.ndjson   >verdicts.ndjson
//! Each output line is either {"kind":"mismatch",...} or the final {"kind":"summary",...}.
use jsonpath_rust::parser::parse_json_path;
use jsonpath_rust::query::js_path_process;
use jsonpath_rust::query::queryable::Queryable;
use jsonpath_rust::JsonPath;
use serde::Deserialize;
use serde_json::{json, Value};
use std::collections::HashMap;
use std::io::{BufRead, Write};
use verif_harness::addr::AddrMap;
use verif_harness::model::*;
use verif_harness::{guarded, quiet_panics};


#[derive(Deserialize)]
struct PathEntry {
    loc: Loc,
    np: Cps,
}

#[derive(Deserialize)]
struct EvalCase {
    id: Value,
    q: Cps,
    doc: SVal,
    expect: Vec<Loc>,
    #[serde(default)]
    sm: Vec<Vec<Loc>>,
    #[serde(default)]
    paths: Vec<PathEntry>,
    #[serde(default)]
    ast: Option<Vec<verif_harness::ast::ASeg>>,
}

#[derive(Deserialize)]
struct DocExpect {
    doc: SVal,
    expect: Vec<Loc>,
    #[serde(default)]
    sm: Vec<Vec<Loc>>,
}

/// A sentence derived (or mutated) by the grammar machine, labelled by the recogniser.
#[derive(Deserialize)]
struct GrammarCase {
    id: Value,
    kind: String,
    q: Cps,
    verdict: String,
    #[serde(default)]
    docs: Vec<DocExpect>,
}

#[derive(Deserialize, Clone)]
struct SessOp {
    k: String,
    e: String,
    q: usize,
    d: usize,
    v: SVal,
}
#[derive(Deserialize, Clone)]
struct SessEv {
    ev: String,
    t: usize,
    op: SessOp,
    locs: Vec<Loc>,
    paths: Vec<Cps>,
    applied: bool,
    wpath: Cps,
}
/// A session of calls by several threads (Session.tla): one interleaving chosen by TLC.
#[derive(Deserialize)]
struct SessionCase {
    id: Value,
    docs: Vec<SVal>,
    queries: Vec<Cps>,
    /// the first `valid` strings are queries, the rest are not (0 = all are)
    #[serde(default)]
    valid: usize,
    hist: Vec<SessEv>,
}

/// Runs one evaluation through the entry point the operation names; returns (locations, paths) as observed.
fn sess_eval(
    op: &SessOp,
    doc: &Value,
    am: &AddrMap<Value>,
    queries: &[String],
    prepared: &[jsonpath_rust::parser::model::JpQuery],
) -> Result<(Option<Vec<Option<Loc>>>, Option<Vec<String>>), String> {
    let q = &queries[op.q - 1];
    let r = guarded(|| -> Result<(Option<Vec<Option<Loc>>>, Option<Vec<String>>), String> {
        match op.e.as_str() {
            "query" => {
                let vs = doc.query(q).map_err(|e| e.to_string())?;
                Ok((Some(vs.iter().map(|v| am.loc_of(*v).cloned()).collect()), None))
            }
            "query_only_path" => Ok((None, Some(doc.query_only_path(q).map_err(|e| e.to_string())?))),
            "query_with_path" => {
                let rs = doc.query_with_path(q).map_err(|e| e.to_string())?;
                Ok((Some(rs.iter().map(|r| am.loc_of(r.clone().val()).cloned()).collect()), Some(rs.into_iter().map(|r| r.path()).collect())))
            }
            _ => {
                let rs = js_path_process(&prepared[op.q - 1], doc).map_err(|e| e.to_string())?;
                Ok((Some(rs.iter().map(|r| am.loc_of(r.clone().val()).cloned()).collect()), Some(rs.into_iter().map(|r| r.path()).collect())))
            }
        }
    });
    match r {
        Err(p) => Err(format!("panic: {p}")),
        Ok(x) => x,
    }
}

fn sess_matches(e: &SessEv, got: &(Option<Vec<Option<Loc>>>, Option<Vec<String>>)) -> bool {
    let locs_ok = match &got.0 {
        Some(ls) => ls.len() == e.locs.len() && ls.iter().zip(e.locs.iter()).all(|(a, b)| a.as_ref() == Some(b)),
        None => true,
    };
    let paths_ok = match &got.1 {
        Some(ps) => ps.len() == e.paths.len() && ps.iter().zip(e.paths.iter()).all(|(a, b)| *a == cps_to_string(b)),
        None => true,
    };
    locs_ok && paths_ok
}

fn check_session(c: &SessionCase, threaded: bool, rounds: usize, out: &mut Out, stats: &mut HashMap<String, u64>) {
    let queries: Vec<String> = c.queries.iter().map(|q| cps_to_string(q)).collect();
    // strings that hist uses in "error" events are expected NOT to parse; every other one must
    let bad: std::collections::HashSet<usize> = if c.valid == 0 { Default::default() } else { (c.valid + 1..=c.queries.len()).collect() };
    let mut prepared: Vec<jsonpath_rust::parser::model::JpQuery> = vec![];
    for (n, q) in queries.iter().enumerate() {
        match guarded(|| parse_json_path(q)) {
            Ok(Ok(p)) => prepared.push(p),
            Ok(Err(e)) if !bad.contains(&(n + 1)) => {
                out.mismatch(json!({"kind":"mismatch","check":"session","repr":"Value","id":c.id,"q":q,"what":format!("a session query does not parse: {e}")}));
                return;
            }
            Ok(Ok(_)) | Ok(Err(_)) | Err(_) if bad.contains(&(n + 1)) => prepared.push(parse_json_path("$").expect("root query")),   // placeholder so that indexes line up; never evaluated
            Err(p) => {
                out.mismatch(json!({"kind":"mismatch","check":"session","repr":"Value","id":c.id,"q":q,"what":format!("panic while parsing a session query: {p}")}));
                return;
            }
            _ => unreachable!(),
        }
    }
    let mut docs: Vec<Value> = c.docs.iter().map(|d| d.to_value()).collect();
    let describe = |n: usize| -> Vec<String> {
        c.hist.iter().take(n + 1).map(|e| if e.ev == "write" { format!("t{} write doc{} {} := {}", e.t, e.op.d, cps_to_string(&e.wpath), e.op.v.to_value()) }
            else { format!("t{} {} {}({}) on doc{}", e.t, if e.ev == "error" { "returns-Err" } else { e.ev.as_str() }, e.op.e, queries.get(e.op.q.wrapping_sub(1)).cloned().unwrap_or_default(), e.op.d) }).collect()
    };
    // (a) sequential replay in the order TLC chose, one process, long-lived parsed queries and documents
    *stats.entry("session_sequential".into()).or_default() += 1;
    for (n, e) in c.hist.iter().enumerate() {
        match e.ev.as_str() {
            "write" => {
                let path = cps_to_string(&e.wpath);
                let newv = e.op.v.to_value();
                let found = match docs[e.op.d - 1].reference_mut(path) { Some(r) => { *r = newv; true } None => false };
                if found != e.applied {
                    out.mismatch(json!({"kind":"mismatch","check":"session","repr":"Value","id":c.id,"q":cps_to_string(&e.wpath),"what":"write through reference_mut did not behave as specified","history":describe(n)}));
                    return;
                }
            }
            "error" => {
                // a call with a string that is not a query returns Err through every entry point (never Ok, never a panic)
                let doc = &docs[e.op.d - 1];
                let q = &queries[e.op.q - 1];
                let r = guarded(|| match e.op.e.as_str() {
                    "query" => doc.query(q).map(|v| v.len()).map_err(|x| x.to_string()),
                    "query_only_path" => doc.query_only_path(q).map(|v| v.len()).map_err(|x| x.to_string()),
                    "query_with_path" => doc.query_with_path(q).map(|v| v.len()).map_err(|x| x.to_string()),
                    _ => parse_json_path(q).map(|_| 0usize).map_err(|x| x.to_string()),
                });
                if !matches!(r, Ok(Err(_))) {
                    out.mismatch(json!({"kind":"mismatch","check":"session","repr":"Value","id":c.id,"q":q,"what":"in this history a call with an invalid query string did not return Err",
                        "entry":e.op.e,"actual":format!("{:?}", r),"history":describe(n)}));
                    return;
                }
            }
            "return" => {
                let doc = &docs[e.op.d - 1];
                let before = doc.clone();
                let am = AddrMap::new(doc);
                match sess_eval(&e.op, doc, &am, &queries, &prepared) {
                    Ok(got) if sess_matches(e, &got) && *doc == before => {}
                    other => {
                        out.mismatch(json!({"kind":"mismatch","check":"session","repr":"Value","id":c.id,"q":queries[e.op.q - 1],"doc":doc,
                            "what":"in this history a call returned something else than the query's nodelist on the current document",
                            "entry":e.op.e,"expect":locs_disp(&e.locs),"expect_paths":e.paths.iter().map(|p| cps_to_string(p)).collect::<Vec<_>>(),
                            "actual":format!("{:?}", other.map(|g| (g.0.map(|ls| ls.iter().map(|l| l.as_ref().map(loc_display)).collect::<Vec<_>>()), g.1))),
                            "history":describe(n)}));
                        return;
                    }
                }
            }
            _ => {}
        }
    }
    // (b) the same programs run by real threads sharing the parsed queries and the documents (histories without writes)
    if threaded && c.hist.iter().all(|e| e.ev != "write") {
        *stats.entry("session_threaded".into()).or_default() += 1;
        let docs0: std::sync::Arc<Vec<Value>> = std::sync::Arc::new(c.docs.iter().map(|d| d.to_value()).collect());
        let prepared = std::sync::Arc::new(prepared);
        let queries = std::sync::Arc::new(queries.clone());
        let nthreads = 6usize;
        let barrier = std::sync::Arc::new(std::sync::Barrier::new(nthreads));
        let mut handles = vec![];
        for t in 0..nthreads {
            // thread t runs the program of spec thread (t % 2) + 1
            let prog: Vec<SessEv> = c.hist.iter().filter(|e| (e.ev == "return" || e.ev == "error") && e.t == (t % 2) + 1).cloned().collect();
            let (docs0, prepared, queries, barrier) = (docs0.clone(), prepared.clone(), queries.clone(), barrier.clone());
            handles.push(std::thread::spawn(move || -> Option<String> {
                let ams: Vec<AddrMap<Value>> = docs0.iter().map(AddrMap::new).collect();
                barrier.wait();
                for round in 0..rounds {
                    for e in prog.iter() {
                        if e.ev == "error" {
                            let q = &queries[e.op.q - 1];
                            let r = guarded(|| if e.op.e == "prepared" { parse_json_path(q).map(|_| 0usize).map_err(|x| x.to_string()) } else { docs0[e.op.d - 1].query_with_path(q).map(|v| v.len()).map_err(|x| x.to_string()) });
                            if !matches!(r, Ok(Err(_))) { return Some(format!("thread {t} round {round}: invalid query string {q} did not return Err: {r:?}")); }
                            continue;
                        }
                        match sess_eval(&e.op, &docs0[e.op.d - 1], &ams[e.op.d - 1], &queries, &prepared) {
                            Ok(got) if sess_matches(e, &got) => {}
                            other => return Some(format!("thread {t} round {round}: {}({}) on doc{} returned {:?}", e.op.e, queries[e.op.q - 1], e.op.d,
                                other.map(|g| (g.0.map(|ls| ls.iter().map(|l| l.as_ref().map(loc_display)).collect::<Vec<_>>()), g.1)))),
                        }
                    }
                }
                None
            }));
        }
        for h in handles {
            match h.join() {
                Ok(None) => {}
                Ok(Some(msg)) => { out.mismatch(json!({"kind":"mismatch","check":"session","repr":"Value","id":c.id,"q":"","what":"concurrent use of a shared parsed query / document returned a wrong result","detail":msg,"history":describe(c.hist.len())})); return; }
                Err(_) => { out.mismatch(json!({"kind":"mismatch","check":"session","repr":"Value","id":c.id,"q":"","what":"a thread panicked during concurrent use","history":describe(c.hist.len())})); return; }
            }
        }
    }
}

#[derive(Deserialize, Clone)]
struct StressRow {
    q: usize,
    d: usize,
    locs: Vec<Loc>,
    paths: Vec<Cps>,
}
/// The table of Stress.tla: one expected result per (query, document) row, whatever the other threads do.
#[derive(Deserialize)]
struct StressCase {
    id: Value,
    docs: Vec<SVal>,
    queries: Vec<Cps>,
    table: Vec<StressRow>,
    /// strings that are not queries
    #[serde(default)]
    storm: Vec<Cps>,
}

/// Many real threads, released together, first thing in a fresh process: every thread evaluates every row through every
/// entry point, each thread starting at a different row after a common first one (so that the first use of large indexes
/// and of long, different member names happens concurrently).
fn check_stress(c: &StressCase, rounds: usize, out: &mut Out, stats: &mut HashMap<String, u64>) {
    let queries: std::sync::Arc<Vec<String>> = std::sync::Arc::new(c.queries.iter().map(|q| cps_to_string(q)).collect());
    let docs: std::sync::Arc<Vec<Value>> = std::sync::Arc::new(c.docs.iter().map(|d| d.to_value()).collect());
    let table: std::sync::Arc<Vec<StressRow>> = std::sync::Arc::new(c.table.clone());
    // before anything else, on THIS thread: every non-query is refused 1 500 times through the parser and through an entry
    // point; afterwards every row still gets its result here (whatever a refusal leaves behind must not add up)
    if !c.storm.is_empty() {
        let mut refused = 0u64;
        for round in 0..1500 {
            for (k, b) in c.storm.iter().enumerate() {
                let q = cps_to_string(b);
                let r = guarded(|| if (round + k) % 2 == 0 { parse_json_path(&q).map(|_| 0usize).map_err(|e| e.to_string()) } else { docs[0].query(&q).map(|v| v.len()).map_err(|e| e.to_string()) });
                match r {
                    Ok(Err(_)) => refused += 1,
                    other => {
                        out.mismatch(json!({"kind":"mismatch","check":"stress","repr":"Value","id":c.id,"q":q,"what":format!("an invalid query string was not refused with Err (round {round}): {other:?}")}));
                        return;
                    }
                }
            }
        }
        *stats.entry("stress_refusals".into()).or_default() += refused;
        let ams: Vec<AddrMap<Value>> = docs.iter().map(AddrMap::new).collect();
        for row in table.iter() {
            let op = SessOp { k: "eval".into(), e: "query_with_path".into(), q: row.q, d: row.d, v: SVal { t: "null".into(), b: false, m: 0, e: 0, f: false, s: vec![], kids: vec![], keys: vec![] } };
            let ev = SessEv { ev: "return".into(), t: 0, op: op.clone(), locs: row.locs.clone(), paths: row.paths.clone(), applied: false, wpath: vec![] };
            match sess_eval(&op, &docs[row.d - 1], &ams[row.d - 1], &queries, &[]) {
                Ok(g) if sess_matches(&ev, &g) => {}
                other => {
                    out.mismatch(json!({"kind":"mismatch","check":"stress","repr":"Value","id":c.id,"q":queries[row.q - 1],
                        "what":"after thousands of refused calls on this thread a valid query no longer returns its result",
                        "detail": format!("{:?}", other.map(|g| (g.0.map(|l| l.len()), g.1.map(|p| p.into_iter().take(3).collect::<Vec<_>>()))))}));
                    return;
                }
            }
        }
    }
    let nthreads = 8usize;
    let barrier = std::sync::Arc::new(std::sync::Barrier::new(nthreads));
    let entries = ["query_with_path", "query", "query_only_path", "prepared"];
    let mut handles = vec![];
    for t in 0..nthreads {
        let (queries, docs, table, barrier) = (queries.clone(), docs.clone(), table.clone(), barrier.clone());
        handles.push(std::thread::spawn(move || -> (u64, Option<String>) {
            let ams: Vec<AddrMap<Value>> = docs.iter().map(AddrMap::new).collect();
            // a prepared query is parsed by the thread that uses it, before the start signal (parsing is not what is raced)
            let prepared: Vec<Option<jsonpath_rust::parser::model::JpQuery>> = queries.iter().map(|q| parse_json_path(q).ok()).collect();
            let mut n = 0u64;
            barrier.wait();
            for round in 0..rounds {
                for k in 0..table.len() {
                    // round 0 starts with row 0 for everybody, afterwards every thread walks from its own offset
                    let r = if round == 0 && k == 0 { 0 } else { (k + t * 3 + round) % table.len() };
                    let row = &table[r];
                    let e = entries[(t + round + k) % 4];
                    if e == "prepared" && prepared[row.q - 1].is_none() { return (n, Some(format!("query {} does not parse", queries[row.q - 1]))); }
                    let op = SessOp { k: "eval".into(), e: e.into(), q: row.q, d: row.d, v: SVal { t: "null".into(), b: false, m: 0, e: 0, f: false, s: vec![], kids: vec![], keys: vec![] } };
                    let prep: Vec<jsonpath_rust::parser::model::JpQuery> = vec![];
                    let got = if e == "prepared" {
                        guarded(|| js_path_process(prepared[row.q - 1].as_ref().unwrap(), &docs[row.d - 1]).map(|rs| {
                            (Some(rs.iter().map(|r| ams[row.d - 1].loc_of(r.clone().val()).cloned()).collect::<Vec<_>>()), Some(rs.into_iter().map(|r| r.path()).collect::<Vec<_>>()))
                        }).map_err(|e| e.to_string())).unwrap_or_else(|p| Err(format!("panic: {p}")))
                    } else {
                        sess_eval(&op, &docs[row.d - 1], &ams[row.d - 1], &queries, &prep)
                    };
                    n += 1;
                    let ev = SessEv { ev: "return".into(), t, op, locs: row.locs.clone(), paths: row.paths.clone(), applied: false, wpath: vec![] };
                    match got {
                        Ok(g) if sess_matches(&ev, &g) => {}
                        other => {
                            let at = |i: usize, v: &Option<Vec<String>>| v.as_ref().and_then(|x| x.get(i).cloned());
                            let shown = match other {
                                Ok((ls, ps)) => {
                                    let lstr: Option<Vec<String>> = ls.map(|l| l.iter().map(|x| x.as_ref().map(loc_display).unwrap_or("<not a node of the document>".into())).collect());
                                    let elocs: Vec<String> = row.locs.iter().map(loc_display).collect();
                                    let epaths: Vec<String> = row.paths.iter().map(|p| cps_to_string(p)).collect();
                                    let n_got = lstr.as_ref().map(|x| x.len()).or(ps.as_ref().map(|x| x.len())).unwrap_or(0);
                                    let pos = (0..n_got.max(elocs.len())).find(|&i| (lstr.is_some() && at(i, &lstr) != elocs.get(i).cloned()) || (ps.is_some() && at(i, &ps) != epaths.get(i).cloned())).unwrap_or(0);
                                    format!("{} results (expected {}); first difference at position {pos}: node {:?} path {:?}, expected node {:?} path {:?}",
                                        n_got, elocs.len(), at(pos, &lstr), at(pos, &ps), elocs.get(pos), epaths.get(pos))
                                }
                                Err(e) => e,
                            };
                            return (n, Some(format!("thread {t} round {round}: {e}({}) on document {} returned {shown}", queries[row.q - 1], row.d)));
                        }
                    }
                }
            }
            (n, None)
        }));
    }
    *stats.entry("stress_runs".into()).or_default() += 1;
    let mut first: Option<String> = None;
    for h in handles {
        match h.join() {
            Ok((n, None)) => { *stats.entry("stress_evaluations".into()).or_default() += n; }
            Ok((n, Some(msg))) => { *stats.entry("stress_evaluations".into()).or_default() += n; first.get_or_insert(msg); }
            Err(_) => { first.get_or_insert("a thread panicked outside the guarded call".into()); }
        }
    }
    if let Some(msg) = first {
        out.mismatch(json!({"kind":"mismatch","check":"stress","repr":"Value","id":c.id,"q":"","threads":nthreads,
            "what":"threads released together in a fresh process: a call returned something else than the query's nodelist on the document","detail":msg}));
    }
}

#[derive(Deserialize)]
struct RefOp {
    op: String,
    loc: Loc,
    path: Cps,
    exists: bool,
    value: SVal,
    after: SVal,
}

/// A history of reads and writes through paths (RefStore.tla).
#[derive(Deserialize)]
struct RefCase {
    id: Value,
    doc: SVal,
    ops: Vec<RefOp>,
}

fn check_refstore(c: &RefCase, out: &mut Out, stats: &mut HashMap<String, u64>) {
    use verif_harness::addr::lookup;
    let mut doc = c.doc.to_value();
    let initial = doc.clone();
    // every path a query returns can be fed back to read the node it was reported for
    {
        *stats.entry("refstore_feedback".into()).or_default() += 1;
        let am = AddrMap::new(&doc);
        if let Ok(Ok(rs)) = guarded(|| doc.query_with_path("$..*")) {
            for r in rs {
                let v = r.clone().val();
                let p = r.path();
                let got = guarded(|| doc.reference(p.clone()).map(|x| x as *const Value)).unwrap_or(None);
                if got != Some(v as *const Value) {
                    let loc = am.loc_of(v).cloned().unwrap_or_default();
                    out.mismatch(json!({"kind":"mismatch","check":"refstore","repr":"Value","id":c.id,"q":p,"doc":initial,"op":"feedback",
                        "node_loc":loc,"node":loc_display(&loc),"actual_path":p,
                        "what": if got.is_none() { "a path reported by a query is not resolved by reference (None)" } else { "a path reported by a query resolves to a different node" }}));
                }
            }
        }
    }
    for (n, o) in c.ops.iter().enumerate() {
        *stats.entry(format!("refstore_{}", o.op)).or_default() += 1;
        let path = cps_to_string(&o.path);
        let mk = |what: &str, doc: &Value| json!({"kind":"mismatch","check":"refstore","repr":"Value","id":c.id,"q":path,"doc":initial,
            "op":o.op,"op_index":n,"node_loc":o.loc,"node":loc_display(&o.loc),"exists":o.exists,"what":what,"doc_now":doc,
            "history": c.ops.iter().take(n + 1).map(|x| format!("{} {}", x.op, cps_to_string(&x.path))).collect::<Vec<_>>()});
        if o.op == "far" {
            // a Normalized Path (given as text) of a location this document does not have: None from both, nothing changes
            let before = doc.clone();
            match guarded(|| doc.reference(path.clone()).is_some()) {
                Ok(false) => {}
                Ok(true) => { out.mismatch(mk("reference resolves a path to a location that does not exist (index far beyond the array)", &doc)); return; }
                Err(p) => { out.mismatch(mk(&format!("panic in reference: {p}"), &doc)); return; }
            }
            let newv = o.value.to_value();
            let wrote = guarded(|| match doc.reference_mut(path.clone()) { Some(r) => { *r = newv.clone(); true } None => false });
            match wrote {
                Ok(false) if doc == before => {}
                Ok(_) => { out.mismatch(mk("reference_mut resolves a path to a location that does not exist and the document changed", &doc)); return; }
                Err(p) => { out.mismatch(mk(&format!("panic in reference_mut: {p}"), &doc)); return; }
            }
            continue;
        }
        let expected_node: Option<*const Value> = lookup(&doc, &o.loc).map(|v| v as *const Value);
        if expected_node.is_some() != o.exists {
            eprintln!("TOOL-ERROR refstore: spec and harness disagree on existence of {} in {}", loc_display(&o.loc), doc);
            std::process::exit(2);
        }
        if o.op == "ref" {
            match guarded(|| doc.reference(path.clone()).map(|v| v as *const Value)) {
                Err(p) => { let mut m = mk("panic in reference", &doc); m["detail"] = json!(p); out.mismatch(m); return; }
                Ok(got) => {
                    if got != expected_node {
                        let what = match (got, expected_node) {
                            (None, Some(_)) => "reference returned None for the path of an existing node",
                            (Some(_), None) => "reference returned a node for a path to a location that does not exist",
                            _ => "reference returned a different node than the one the path denotes",
                        };
                        out.mismatch(mk(what, &doc));
                        return;
                    }
                }
            }
        } else {
            let newv = o.value.to_value();
            let before = doc.clone();
            let res = guarded(|| match doc.reference_mut(path.clone()) {
                Some(r) => { *r = newv.clone(); true }
                None => false,
            });
            match res {
                Err(p) => { let mut m = mk("panic in reference_mut", &before); m["detail"] = json!(p); out.mismatch(m); return; }
                Ok(found) => {
                    let want = o.after.to_value();
                    if found != o.exists || doc != want {
                        let what = if found && !o.exists { "reference_mut returned a handle for a path to a location that does not exist" }
                                   else if !found && o.exists { "reference_mut returned None for the path of an existing node" }
                                   else { "writing through reference_mut changed something other than exactly that node" };
                        let mut m = mk(what, &before);
                        m["doc_after"] = json!(doc);
                        m["doc_expected"] = json!(want);
                        out.mismatch(m);
                        return;
                    }
                }
            }
        }
    }
}

struct Out {
    buf: Vec<Value>,
    mismatches: u64,
}
impl Out {
    fn mismatch(&mut self, v: Value) {
        self.mismatches += 1;
        self.buf.push(v);
    }
}

/// One observed result: where it is (None = not a node of the caller's document) and its path text.
#[derive(Clone, Debug, PartialEq)]
struct Obs {
    loc: Option<Loc>,
    path: String,
}

enum Outcome {
    Ok(Vec<Obs>),
    Err(String),
    Panic(String),
}

fn observe<T: Queryable + JsonPath>(doc: &T, am: &AddrMap<T>, q: &str) -> Outcome {
    match guarded(|| doc.query_with_path(q)) {
        Err(p) => Outcome::Panic(p),
        Ok(Err(e)) => Outcome::Err(e.to_string()),
        Ok(Ok(rs)) => Outcome::Ok(
            rs.into_iter()
                .map(|r| {
                    let v = r.clone().val();
                    Obs { loc: am.loc_of(v).cloned(), path: r.path() }
                })
                .collect(),
        ),
    }
}

/// (in a but not b, in b but not a) for sorted multisets
fn multiset_diff(a: &[Loc], b: &[Loc]) -> (Vec<Loc>, Vec<Loc>) {
    let (mut i, mut j) = (0, 0);
    let (mut only_a, mut only_b) = (vec![], vec![]);
    while i < a.len() || j < b.len() {
        if j >= b.len() || (i < a.len() && a[i] < b[j]) {
            only_a.push(a[i].clone());
            i += 1;
        } else if i >= a.len() || b[j] < a[i] {
            only_b.push(b[j].clone());
            j += 1;
        } else {
            i += 1;
            j += 1;
        }
    }
    (only_a, only_b)
}

fn locs_disp(ls: &[Loc]) -> Vec<String> {
    ls.iter().map(loc_display).collect()
}
fn obs_disp(os: &[Obs]) -> Vec<String> {
    os.iter().map(|o| o.loc.as_ref().map(loc_display).unwrap_or_else(|| "<not-in-document>".into())).collect()
}

fn base(case: &EvalCase, q: &str, docj: &Value, check: &str, repr: &str) -> Value {
    json!({"kind":"mismatch","check":check,"repr":repr,"id":case.id,"q":q,"doc":docj,
           "expect": locs_disp(&case.expect)})
}

fn check_eval<T: Queryable + JsonPath>(
    case: &EvalCase,
    doc: &T,
    docj: &Value,
    repr: &str,
    checks: &[String],
    out: &mut Out,
    stats: &mut HashMap<String, u64>,
) -> Option<Vec<Obs>> {
    let q = cps_to_string(&case.q);
    let am = AddrMap::new(doc);
    let has = |c: &str| checks.iter().any(|x| x == c);
    let obs = match observe(doc, &am, &q) {
        Outcome::Panic(p) => {
            let mut m = base(case, &q, docj, "outcome", repr);
            m["what"] = json!("panic");
            m["detail"] = json!(p);
            out.mismatch(m);
            return None;
        }
        Outcome::Err(e) => {
            let mut m = base(case, &q, docj, "outcome", repr);
            m["what"] = json!("valid query rejected");
            m["detail"] = json!(e);
            out.mismatch(m);
            return None;
        }
        Outcome::Ok(o) => o,
    };
    let actual_locs: Vec<Option<Loc>> = obs.iter().map(|o| o.loc.clone()).collect();
    let all_inside = actual_locs.iter().all(|l| l.is_some());
    let actual: Vec<Loc> = actual_locs.iter().flatten().cloned().collect();
    let mut sa = actual.clone();
    sa.sort();
    let mut se = case.expect.clone();
    se.sort();
    let same_multiset = all_inside && sa == se;
    if has("nodes") {
        *stats.entry("nodes".into()).or_default() += 1;
        if !same_multiset {
            let mut m = base(case, &q, docj, "nodes", repr);
            m["actual"] = json!(obs_disp(&obs));
            m["what"] = json!(if !all_inside { "result is not a node of the caller's document" } else { "selected nodes differ (as multisets)" });
            let (missing, extra) = multiset_diff(&se, &sa);
            m["missing"] = json!(locs_disp(&missing));
            m["extra"] = json!(locs_disp(&extra));
            m["missing_values"] = json!(missing.iter().map(|l| verif_harness::addr::lookup(doc, l).map(|v| format!("{:?}", v))).collect::<Vec<_>>());
            m["extra_values"] = json!(extra.iter().map(|l| verif_harness::addr::lookup(doc, l).map(|v| format!("{:?}", v))).collect::<Vec<_>>());
            out.mismatch(m);
        }
    }
    if has("order") {
        *stats.entry("order".into()).or_default() += 1;
        if !(all_inside && actual == case.expect) {
            let mut m = base(case, &q, docj, "order", repr);
            m["actual"] = json!(obs_disp(&obs));
            m["same_multiset"] = json!(same_multiset);
            let smajor = !case.sm.is_empty() && all_inside && actual == case.sm[0];
            m["selector_major"] = json!(smajor);
            m["what"] = json!("result sequence differs from RFC order");
            out.mismatch(m);
        }
    }
    if has("paths") {
        *stats.entry("paths".into()).or_default() += 1;
        let table: HashMap<&Loc, String> = case.paths.iter().map(|p| (&p.loc, cps_to_string(&p.np))).collect();
        for (i, o) in obs.iter().enumerate() {
            let Some(loc) = &o.loc else { continue };
            let Some(np) = table.get(loc) else { continue };
            if &o.path != np {
                let mut m = base(case, &q, docj, "paths", repr);
                m["what"] = json!("reported path is not the Normalized Path of the reported node");
                m["node"] = json!(loc_display(loc));
                m["node_loc"] = json!(loc);
                m["expected_path"] = json!(np);
                m["actual_path"] = json!(o.path);
                m["pos"] = json!(i);
                out.mismatch(m);
                continue;
            }
            // re-query of the reported path: exactly that one node, with that same path
            match observe(doc, &am, &o.path) {
                Outcome::Ok(r) if r.len() == 1 && r[0].loc.as_ref() == Some(loc) && r[0].path == o.path => {}
                other => {
                    let mut m = base(case, &q, docj, "paths", repr);
                    m["what"] = json!("re-running the reported path does not return exactly that node");
                    m["node"] = json!(loc_display(loc));
                    m["node_loc"] = json!(loc);
                    m["actual_path"] = json!(o.path);
                    m["requery"] = match other {
                        Outcome::Ok(r) => json!({"nodes": obs_disp(&r), "paths": r.iter().map(|x| x.path.clone()).collect::<Vec<_>>()}),
                        Outcome::Err(e) => json!({"err": e}),
                        Outcome::Panic(p) => json!({"panic": p}),
                    };
                    out.mismatch(m);
                }
            }
        }
        // equal paths <=> same node
        for a in 0..obs.len() {
            for b in (a + 1)..obs.len() {
                if (obs[a].path == obs[b].path) != (obs[a].loc == obs[b].loc) {
                    let mut m = base(case, &q, docj, "paths", repr);
                    m["what"] = json!("two results: equal paths <=> same node is violated");
                    m["actual"] = json!(obs_disp(&obs));
                    m["actual_paths"] = json!(obs.iter().map(|x| x.path.clone()).collect::<Vec<_>>());
                    out.mismatch(m);
                }
            }
        }
    }
    if has("feedback") && repr == "Value" {
        // C09: every path a query returns can be fed back to `reference` and yields that very node
        *stats.entry("feedback".into()).or_default() += 1;
        for o in obs.iter() {
            let Some(loc) = &o.loc else { continue };
            let want = verif_harness::addr::lookup(doc, loc).map(|v| v as *const T);
            let got = guarded(|| doc.reference(o.path.clone()).map(|v| v as *const T));
            if got.as_ref().ok() != Some(&want) {
                let mut m = base(case, &q, docj, "feedback", repr);
                m["op"] = json!("feedback");
                m["node_loc"] = json!(loc);
                m["actual_path"] = json!(o.path);
                m["what"] = json!(match got { Ok(None) => "a path reported by a query is not resolved by reference (None)".to_string(), Ok(Some(_)) => "a path reported by a query resolves to a different node".to_string(), Err(p) => format!("panic in reference: {p}") });
                out.mismatch(m);
                break;
            }
        }
    }
    if has("prog") {
        // the same abstract query BUILT PROGRAMMATICALLY (no parser) and evaluated with js_path_process
        if let (Some(a), None) = (case.ast.as_ref(), case.ast.as_ref().and_then(|a| verif_harness::ast::jpquery(a))) {
            // names that have no unambiguous bare form (quotes, backslashes): built with the raw name anyway; C08 only
            // demands that evaluating a programmatically built query returns (the watchdog sees a hang, guarded a panic)
            if let Some(jq) = verif_harness::ast::jpquery_lenient(a) {
                *stats.entry("prog_lenient".into()).or_default() += 1;
                if let Err(p) = guarded(|| js_path_process(&jq, doc).map(|rs| rs.len()).map_err(|e| e.to_string())) {
                    let mut m = base(case, &q, docj, "prog", repr);
                    m["what"] = json!(format!("panic while evaluating a programmatically built query: {p}"));
                    out.mismatch(m);
                }
            }
        }
        if let Some(jq) = case.ast.as_ref().and_then(|a| verif_harness::ast::jpquery(a)) {
            *stats.entry("prog".into()).or_default() += 1;
            let r = guarded(|| js_path_process(&jq, doc).map(|rs| rs.into_iter().map(|r| am.loc_of(r.clone().val()).cloned()).collect::<Vec<_>>()).map_err(|e| e.to_string()));
            let ok = match &r {
                Ok(Ok(ls)) => {
                    let mut got: Vec<Loc> = ls.iter().flatten().cloned().collect();
                    let inside = got.len() == ls.len();
                    got.sort();
                    inside && got == se
                }
                _ => false,
            };
            if !ok {
                let mut m = base(case, &q, docj, "prog", repr);
                m["what"] = json!("js_path_process on the programmatically built query does not return the specification's nodes");
                m["actual"] = json!(format!("{:?}", r.map(|x| x.map(|ls| ls.iter().map(|l| l.as_ref().map(loc_display)).collect::<Vec<_>>()))));
                out.mismatch(m);
            }
        }
    }
    if has("entry") {
        *stats.entry("entry".into()).or_default() += 1;
        // the three entry points and the prepared query agree position by position; repetition is stable
        let before = format!("{:?}", doc);
        let vals = guarded(|| doc.query(&q));
        let paths = guarded(|| doc.query_only_path(&q));
        let prepared = guarded(|| parse_json_path(&q).and_then(|p| js_path_process(&p, doc).map(|rs| {
            rs.into_iter().map(|r| { let v = r.clone().val(); Obs { loc: am.loc_of(v).cloned(), path: r.path() } }).collect::<Vec<_>>()
        })));
        let again = observe(doc, &am, &q);
        let mut problems = vec![];
        match vals {
            Ok(Ok(vs)) => {
                let ls: Vec<Option<Loc>> = vs.iter().map(|v| am.loc_of(*v).cloned()).collect();
                if ls != actual_locs { problems.push("query() differs from query_with_path()"); }
            }
            _ => problems.push("query() failed where query_with_path() succeeded"),
        }
        match paths {
            Ok(Ok(ps)) => {
                if ps != obs.iter().map(|o| o.path.clone()).collect::<Vec<_>>() { problems.push("query_only_path() differs from query_with_path()"); }
            }
            _ => problems.push("query_only_path() failed where query_with_path() succeeded"),
        }
        match prepared {
            Ok(Ok(p)) => { if p != obs { problems.push("prepared query differs from parse-at-every-call"); } }
            _ => problems.push("prepared query failed"),
        }
        match again {
            Outcome::Ok(o2) => { if o2 != obs { problems.push("repetition gives a different result"); } }
            _ => problems.push("repetition failed"),
        }
        if format!("{:?}", doc) != before { problems.push("document changed by evaluation"); }
        if !problems.is_empty() {
            let mut m = base(case, &q, docj, "entry", repr);
            m["what"] = json!(problems);
            m["actual"] = json!(obs_disp(&obs));
            out.mismatch(m);
        }
    }
    Some(obs)
}

/// C08/C12 "after any history": faults the CALLER's code raises in the middle of an evaluation (a panicking Queryable
/// accessor or custom function, caught by the caller) and re-entrant use (a custom function that runs a query of its own)
/// are history like any other; the next evaluation must still give the specification's answer.
fn check_recover(case: &EvalCase, docj: &Value, out: &mut Out, stats: &mut HashMap<String, u64>) {
    use verif_harness::j::J;
    let q = cps_to_string(&case.q);
    let jd = case.doc.to_j();
    let vd = case.doc.to_value();
    let sorted = case.doc.keys_sorted();
    let d = |o: &Outcome| match o { Outcome::Ok(x) => json!({"nodes": obs_disp(x), "paths": x.iter().map(|y| y.path.clone()).collect::<Vec<_>>()}), Outcome::Err(e) => json!({"err": e}), Outcome::Panic(p) => json!({"panic": p}) };
    // every case runs on a FRESH thread: per-thread state left behind by an earlier case cannot hide what this one leaves
    let (fired, problems, before_d, after_d) = std::thread::scope(|sc| {
        std::thread::Builder::new().stack_size(256 << 20).spawn_scoped(sc, || {
            let am = AddrMap::new(&jd);
            let vam = AddrMap::new(&vd);
            // the first element passes the probe filter, the faults strike on a later one (part-way through a selector)
            let host = J::Arr(vec![J::Obj(vec![("x".to_string(), J::Int(1))]), jd.clone(), J::Obj(vec![("x".to_string(), jd.clone())]), J::Arr(vec![J::Int(1), J::Int(2)]), J::Obj(vec![("x".to_string(), J::Int(1))])]);
            let ham = AddrMap::new(&host);
            let probe = "$[?@.x == 1]";
            let before = observe(&jd, &am, &q);
            let vbefore = if sorted { Some(observe(&vd, &vam, &q)) } else { None };
            let pbefore = observe(&host, &ham, probe);
            let same = |a: &Outcome, b: &Outcome| match (a, b) { (Outcome::Ok(x), Outcome::Ok(y)) => x == y, (Outcome::Err(_), Outcome::Err(_)) => true, _ => false };
            let mut problems: Vec<String> = vec![];
            let mut fired = 0u64;
            let mut after = observe(&jd, &am, &q);
            for fq in ["$[?@.x == 1 || boom(@)]", "$[?boom(@)]", "$..[?@.x == 1 || boom(@)]", "$[?@[?boom(@)]]", "$['__panic__']", "$..__panic__", "$[?@.x == 1 || @.__panic__ == 1]"] {
                match guarded(|| host.query_with_path(fq).map(|r| r.len()).map_err(|e| e.to_string())) {
                    Err(_) => fired += 1,
                    Ok(r) => problems.push(format!("fault injection did not fire: {fq} returned {r:?}")),
                }
                // straight after EACH caught fault: the case's query and a filter probe answer as they did before
                after = observe(&jd, &am, &q);
                if !same(&before, &after) { problems.push(format!("after the caller caught a panic of its own Queryable in {fq}, the same query on the same document answers differently")); break; }
                let pafter = observe(&host, &ham, probe);
                if !same(&pbefore, &pafter) { problems.push(format!("after a caught panic in {fq}, {probe} answers differently: {} instead of {}", d(&pafter), d(&pbefore))); break; }
            }
            // re-entrancy: the custom function evaluates queries itself while the outer query is running
            match guarded(|| host.query_with_path("$[?nested(@)]").map(|r| r.len()).map_err(|e| e.to_string())) {
                Ok(Ok(5)) => {}
                other => problems.push(format!("a custom function that runs a query of its own: expected all 5 elements, got {other:?}")),
            }
            if problems.is_empty() {
                after = observe(&jd, &am, &q);
                if !same(&before, &after) { problems.push("the same query answers differently after a re-entrant evaluation".to_string()); }
            }
            if let Some(vb) = &vbefore {
                let va = observe(&vd, &vam, &q);
                if !same(vb, &va) { problems.push("serde_json::Value: the same query answers differently after a caught panic in another data type".to_string()); }
            }
            // and against the specification
            if let Outcome::Ok(o) = &after {
                let ls: Vec<Option<Loc>> = o.iter().map(|x| x.loc.clone()).collect();
                let mut got: Vec<Loc> = ls.iter().flatten().cloned().collect();
                let inside = got.len() == ls.len();
                got.sort();
                let mut se = case.expect.clone();
                se.sort();
                if !(inside && got == se) { problems.push("after the faults the result is not the specification's".to_string()); }
            } else {
                problems.push(format!("after the faults the query fails: {}", d(&after)));
            }
            (fired, problems, d(&before), d(&after))
        }).expect("spawn").join().unwrap_or_else(|_| (0, vec!["the recovery check itself panicked outside a guarded call".to_string()], Value::Null, Value::Null))
    });
    *stats.entry("recover_faults_fired".into()).or_default() += fired;
    *stats.entry("recover".into()).or_default() += 1;
    if !problems.is_empty() {
        let mut m = base(case, &q, docj, "recover", "J");
        m["what"] = json!(problems);
        m["before"] = before_d;
        m["after"] = after_d;
        out.mismatch(m);
    }
}

fn probe_docs() -> Vec<Value> {
    vec![
        json!({"a": [1.5, 1, {"a": 1, "b": 100}], "a b": [{"b": 100}], "ab": 1, "b": "a"}),
        json!([{"a": 1, "b": 1}, {"a": "a"}, [0, 1, 2], 1]),
    ]
}

fn check_grammar(g: &GrammarCase, checks: &[String], out: &mut Out, stats: &mut HashMap<String, u64>) {
    let has = |c: &str| checks.iter().any(|x| x == c);
    let q = cps_to_string(&g.q);
    let mk = |check: &str, what: &str| json!({"kind":"mismatch","check":check,"repr":"Value","id":g.id,"q":q,"sentence_kind":g.kind,
                                              "verdict":g.verdict,"what":what});
    let parsed = guarded(|| parse_json_path(&q).map(|_| ()).map_err(|e| e.to_string()));
    if g.verdict == "valid" && (has("accept") || has("order") || has("nodes")) {
        *stats.entry("accept".into()).or_default() += 1;
        match &parsed {
            Err(p) => { let mut m = mk("accept", "panic while parsing a valid query"); m["detail"] = json!(p); out.mismatch(m); }
            Ok(Err(e)) => { let mut m = mk("accept", "valid query rejected by parse_json_path"); m["detail"] = json!(e); out.mismatch(m); }
            Ok(Ok(())) => {
                for d in probe_docs() {
                    match guarded(|| d.query(&q).map(|v| v.len()).map_err(|e| e.to_string())) {
                        Ok(Ok(_)) => {}
                        Ok(Err(e)) => { let mut m = mk("accept", "valid query rejected by JsonPath::query"); m["detail"] = json!(e); out.mismatch(m); }
                        Err(p) => { let mut m = mk("accept", "panic while evaluating a valid query"); m["detail"] = json!(p); out.mismatch(m); }
                    }
                }
            }
        }
    }
    if g.verdict == "invalid" && has("reject") {
        *stats.entry("reject".into()).or_default() += 1;
        match &parsed {
            Err(p) => { let mut m = mk("reject", "panic while parsing an invalid query"); m["detail"] = json!(p); out.mismatch(m); }
            Ok(Ok(())) => { out.mismatch(mk("reject", "invalid query accepted by parse_json_path")); }
            Ok(Err(_)) => {}
        }
        for d in probe_docs() {
            match guarded(|| d.query(&q).map(|v| v.len()).map_err(|e| e.to_string())) {
                Ok(Ok(n)) => { let mut m = mk("reject", "invalid query accepted and evaluated by JsonPath::query"); m["detail"] = json!(format!("{} nodes", n)); out.mismatch(m); break; }
                Ok(Err(_)) => {}
                Err(p) => { let mut m = mk("reject", "panic while running an invalid query"); m["detail"] = json!(p); out.mismatch(m); break; }
            }
        }
    }
    if g.verdict == "valid" && (has("order") || has("nodes")) {
        let which = if has("order") { "order" } else { "nodes" };
        for (n, d) in g.docs.iter().enumerate() {
            let case = EvalCase { id: json!([g.id, n]), q: g.q.clone(), doc: d.doc.clone(), expect: d.expect.clone(), sm: d.sm.clone(), paths: vec![], ast: None };
            let doc = case.doc.to_value();
            let docj = case.doc.to_j().to_value();
            if has("jgrammar") {
                // C15: the same spelling evaluated through the second Queryable implementation
                let jd = case.doc.to_j();
                check_eval(&case, &jd, &docj, "J", &[which.to_string()], out, stats);
            } else {
                check_eval(&case, &doc, &docj, "Value", &[which.to_string()], out, stats);
            }
        }
    }
}

/// serde_json refuses input nested deeper than 128 levels; the deep-document universes go beyond that on purpose
fn from_line<T: serde::de::DeserializeOwned>(line: &str) -> Result<T, serde_json::Error> {
    let mut de = serde_json::Deserializer::from_str(line);
    de.disable_recursion_limit();
    T::deserialize(&mut de)
}

fn main() {
    // deep documents need a deep stack in the HARNESS (conversion, address map); the code under test runs on it too,
    // which is why deep-nesting behaviour of the library itself is observed in the isolated worker (C08), not here
    let t = std::thread::Builder::new().stack_size(1 << 30).spawn(real_main).expect("spawn");
    let _ = t.join();
}

fn real_main() {
    quiet_panics();
    let args: Vec<String> = std::env::args().collect();
    let mut checks: Vec<String> = vec!["nodes".into()];
    let mut i = 1;
    while i < args.len() {
        if args[i] == "--checks" {
            checks = args[i + 1].split(',').map(|s| s.to_string()).collect();
            i += 1;
        }
        i += 1;
    }
    let has = |c: &str| checks.iter().any(|x| x == c);
    let stdin = std::io::stdin();
    let mut w = std::io::BufWriter::new(std::io::stdout());
    let mut out = Out { buf: vec![], mismatches: 0 };
    let mut stats: HashMap<String, u64> = HashMap::new();
    let mut cases = 0u64;
    let mut nonempty = 0u64;
    let mut distinct: std::collections::HashSet<u64> = Default::default();
    // watchdog: a case that does not finish within the limit is a hang of the code under test (C08) - it is reported
    // as a mismatch of that very case, the run ends there (the remaining cases are not explored)
    let current: std::sync::Arc<std::sync::Mutex<(std::time::Instant, String, u64)>> =
        std::sync::Arc::new(std::sync::Mutex::new((std::time::Instant::now(), String::new(), 0)));
    {
        let current = current.clone();
        let limit = std::env::var("VERIF_CASE_TIMEOUT").ok().and_then(|v| v.parse().ok()).unwrap_or(240u64);      // generous: on a saturated machine a trivial case was once held up for 45 s
        std::thread::spawn(move || loop {
            std::thread::sleep(std::time::Duration::from_secs(1));
            let (started, line, n) = { let g = current.lock().unwrap(); (g.0, g.1.clone(), g.2) };
            if !line.is_empty() && started.elapsed().as_secs() > limit {
                let v: Value = serde_json::from_str(&line).unwrap_or(Value::Null);
                let q = serde_json::from_value::<Cps>(v["q"].clone()).map(|c| cps_to_string(&c)).unwrap_or_default();
                let o = std::io::stdout();
                let mut o = o.lock();
                let _ = writeln!(o, "{}", json!({"kind":"mismatch","check":"hang","repr":"Value","id":v["id"],"q":q,
                    "doc": serde_json::from_value::<SVal>(v["doc"].clone()).map(|d| d.to_j().to_value()).unwrap_or(Value::Null),
                    "what": format!("the code under test did not return within {limit} s on this case (hang or pathological slowness)")}));
                let _ = writeln!(o, "{}", json!({"kind":"summary","cases":n,"nonempty_expect":n,"distinct":n,"mismatches":1,"checks":{"aborted_by_watchdog":1}}));
                let _ = o.flush();
                std::process::exit(0);
            }
        });
    }
    for line in stdin.lock().lines() {
        let line = line.expect("read");
        if line.trim().is_empty() {
            continue;
        }
        {
            let mut g = current.lock().unwrap();
            *g = (std::time::Instant::now(), line.clone(), cases);
        }
        w.flush().unwrap();
        if line.contains("\"mode\":\"session\"") {
            let c: SessionCase = match serde_json::from_str(&line) {
                Ok(c) => c,
                Err(e) => {
                    eprintln!("TOOL-ERROR bad session line: {e}: {}", &line[..line.len().min(200)]);
                    std::process::exit(2);
                }
            };
            cases += 1;
            nonempty += 1;
            {
                use std::hash::{Hash, Hasher};
                let mut h = std::collections::hash_map::DefaultHasher::new();
                line.hash(&mut h);
                distinct.insert(h.finish());
            }
            let thorough = std::env::var("VERIF_TIER").map(|t| t == "thorough").unwrap_or(false);
            check_session(&c, cases % (if thorough { 25 } else { 60 }) == 0, if thorough { 20 } else { 8 }, &mut out, &mut stats);
            for v in out.buf.drain(..) {
                writeln!(w, "{}", v).unwrap();
            }
            continue;
        }
        if line.contains("\"mode\":\"stress\"") {
            let c: StressCase = match serde_json::from_str(&line) {
                Ok(c) => c,
                Err(e) => {
                    eprintln!("TOOL-ERROR bad stress line: {e}: {}", &line[..line.len().min(200)]);
                    std::process::exit(2);
                }
            };
            cases += 1;
            nonempty += 1;
            distinct.insert(cases);
            let thorough = std::env::var("VERIF_TIER").map(|t| t == "thorough").unwrap_or(false);
            check_stress(&c, if thorough { 60 } else { 12 }, &mut out, &mut stats);
            for v in out.buf.drain(..) {
                writeln!(w, "{}", v).unwrap();
            }
            continue;
        }
        if line.contains("\"mode\":\"refstore\"") {
            let c: RefCase = match serde_json::from_str(&line) {
                Ok(c) => c,
                Err(e) => {
                    eprintln!("TOOL-ERROR bad refstore line: {e}: {}", &line[..line.len().min(200)]);
                    std::process::exit(2);
                }
            };
            cases += 1;
            if c.ops.iter().any(|o| o.exists) {
                nonempty += 1;
            }
            {
                use std::hash::{Hash, Hasher};
                let mut h = std::collections::hash_map::DefaultHasher::new();
                line.hash(&mut h);
                distinct.insert(h.finish());
            }
            check_refstore(&c, &mut out, &mut stats);
            for v in out.buf.drain(..) {
                writeln!(w, "{}", v).unwrap();
            }
            continue;
        }
        if line.contains("\"verdict\":") {
            let g: GrammarCase = match serde_json::from_str(&line) {
                Ok(c) => c,
                Err(e) => {
                    eprintln!("TOOL-ERROR bad grammar line: {e}: {}", &line[..line.len().min(200)]);
                    std::process::exit(2);
                }
            };
            cases += 1;
            if g.verdict != "unscoped" {
                nonempty += 1;
            }
            {
                use std::hash::{Hash, Hasher};
                let mut h = std::collections::hash_map::DefaultHasher::new();
                g.q.hash(&mut h);
                distinct.insert(h.finish());
            }
            *stats.entry(format!("verdict_{}", g.verdict)).or_default() += 1;
            check_grammar(&g, &checks, &mut out, &mut stats);
            for v in out.buf.drain(..) {
                writeln!(w, "{}", v).unwrap();
            }
            continue;
        }
        let case: EvalCase = match from_line(&line) {
            Ok(c) => c,
            Err(e) => {
                eprintln!("TOOL-ERROR bad case line: {e}: {}", &line[..line.len().min(200)]);
                std::process::exit(2);
            }
        };
        cases += 1;
        if !case.expect.is_empty() {
            nonempty += 1;
        }
        {
            use std::hash::{Hash, Hasher};
            let mut h = std::collections::hash_map::DefaultHasher::new();
            line.hash(&mut h);
            distinct.insert(h.finish());
        }
        let sorted = case.doc.keys_sorted();
        let docj = case.doc.to_j().to_value();
        let mut vobs = None;
        if sorted {
            let doc = case.doc.to_value();
            vobs = check_eval(&case, &doc, &docj, "Value", &checks, &mut out, &mut stats);
        }
        if has("j") || !sorted {
            // C15: the same behaviour through a second Queryable implementation
            let jd = case.doc.to_j();
            let jchecks: Vec<String> = checks.iter().filter(|c| *c != "j").cloned().collect();
            // J against the specification (reported under the same checks, repr = "J")
            let jobs = check_eval(&case, &jd, &docj, "J", if sorted { &[] } else { &jchecks }, &mut out, &mut stats);
            if has("j") && sorted {
                // third representation: shared sub-documents (same address at several locations); paths and values only
                {
                    use verif_harness::j::Sh;
                    let q = cps_to_string(&case.q);
                    let vdoc = case.doc.to_value();
                    let sdoc = Sh::from_value(&vdoc, &mut HashMap::new());
                    // numbers are compared by value (the shared representation stores integers beyond i64 as floats)
                    fn canon(v: &Value) -> Value {
                        match v {
                            Value::Number(n) => json!(n.as_f64()),
                            Value::Array(a) => Value::Array(a.iter().map(canon).collect()),
                            Value::Object(o) => Value::Object(o.iter().map(|(k, x)| (k.clone(), canon(x))).collect()),
                            x => x.clone(),
                        }
                    }
                    let vres = guarded(|| vdoc.query_with_path(&q).map(|rs| rs.into_iter().map(|r| (canon(r.clone().val()), r.path())).collect::<Vec<_>>()).map_err(|e| e.to_string()));
                    let sres = guarded(|| sdoc.query_with_path(&q).map(|rs| rs.into_iter().map(|r| (canon(&r.clone().val().to_value()), r.path())).collect::<Vec<_>>()).map_err(|e| e.to_string()));
                    *stats.entry("shared".into()).or_default() += 1;
                    if vres != sres {
                        let mut m = base(&case, &q, &docj, "j", "Sh-vs-Value");
                        m["what"] = json!("a Queryable with structurally shared sub-documents gives a different result than serde_json::Value");
                        let fmt = |r: &Result<Result<Vec<(Value, String)>, String>, String>| -> Vec<String> {
                            match r { Ok(Ok(v)) => v.iter().map(|(x, p)| format!("{} = {}", p, x)).collect(), Ok(Err(e)) => vec![format!("Err({e})")], Err(p) => vec![format!("panic({p})")] }
                        };
                        let (fv, fs) = (fmt(&vres), fmt(&sres));
                        m["only_value"] = json!(fv.iter().filter(|x| !fs.contains(x)).take(6).collect::<Vec<_>>());
                        m["only_shared"] = json!(fs.iter().filter(|x| !fv.contains(x)).take(6).collect::<Vec<_>>());
                        out.mismatch(m);
                    }
                }
                *stats.entry("j".into()).or_default() += 1;
                // differential: same paths, equal values, position by position
                let q = cps_to_string(&case.q);
                let same = match (&vobs, &jobs) {
                    (Some(a), Some(b)) => a == b,
                    (None, None) => true,
                    _ => false,
                };
                if !same {
                    let mut m = base(&case, &q, &docj, "j", "J-vs-Value");
                    m["what"] = json!("second Queryable implementation gives a different result than serde_json::Value");
                    m["value_result"] = json!(vobs.as_ref().map(|o| obs_disp(o)));
                    m["value_paths"] = json!(vobs.as_ref().map(|o| o.iter().map(|x| x.path.clone()).collect::<Vec<_>>()));
                    m["j_result"] = json!(jobs.as_ref().map(|o| obs_disp(o)));
                    m["j_paths"] = json!(jobs.as_ref().map(|o| o.iter().map(|x| x.path.clone()).collect::<Vec<_>>()));
                    out.mismatch(m);
                }
            }
        }
        // thorough tier: millions of behaviours - the recovery history is replayed for every eighth of them
        if has("recover") && (cases % 8 == 0 || !std::env::var("VERIF_TIER").map(|t| t == "thorough").unwrap_or(false)) {
            check_recover(&case, &docj, &mut out, &mut stats);
        }
        for v in out.buf.drain(..) {
            writeln!(w, "{}", v).unwrap();
        }
    }
    let summary = json!({"kind":"summary","cases":cases,"nonempty_expect":nonempty,"distinct":distinct.len(),
        "mismatches":out.mismatches,"checks":stats});
    writeln!(w, "{}", summary).unwrap();
    w.flush().unwrap();
}
