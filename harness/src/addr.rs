//! Node identity by address.  The location of a result is found by looking its address up in a
//! map built by walking the caller's document through the `Queryable` trait - never by parsing the
//! library's own path strings.  A result whose address is not in the map is not a node of the
//! caller's document (a copy or a fabricated value: C01).
use crate::model::{Loc, Step};
use jsonpath_rust::query::queryable::Queryable;
use std::collections::HashMap;

pub struct AddrMap<T> {
    map: HashMap<*const T, Loc>,
    /// all locations in document pre-order (the order the trait yields children)
    pub locs: Vec<Loc>,
}

impl<T: Queryable> AddrMap<T> {
    pub fn new(root: &T) -> Self {
        let mut m = AddrMap { map: HashMap::new(), locs: vec![] };
        m.walk(root, &mut vec![]);
        m
    }
    fn walk(&mut self, v: &T, loc: &mut Loc) {
        self.map.insert(v as *const T, loc.clone());
        self.locs.push(loc.clone());
        if let Some(a) = v.as_array() {
            for (i, e) in a.iter().enumerate() {
                loc.push(Step::idx(i));
                self.walk(e, loc);
                loc.pop();
            }
        } else if let Some(o) = v.as_object() {
            for (k, e) in o {
                loc.push(Step::name(k));
                self.walk(e, loc);
                loc.pop();
            }
        }
    }
    pub fn loc_of(&self, v: &T) -> Option<&Loc> {
        self.map.get(&(v as *const T))
    }
}

/// Follows a location through the trait; None if it does not exist.
pub fn lookup<'a, T: Queryable>(root: &'a T, loc: &Loc) -> Option<&'a T> {
    let mut cur = root;
    for st in loc {
        if st.k == "i" {
            cur = cur.as_array()?.get(st.i as usize)?;
        } else {
            let name = crate::model::cps_to_string(&st.n);
            cur = cur.as_object()?.into_iter().find(|(k, _)| **k == name).map(|(_, v)| v)?;
        }
    }
    Some(cur)
}
